"""C01 — meaning preserved: operator table and range desugaring (E2 MIR kernels + E3 templates + z3)."""
import re
import subprocess
import z3

import common
import e2
import srcsym
import convkern
from e2 import conj, disj, opq, calls, result_kind
from mirsym import Exec, State, Opq, Agg, Ref, StrC, Seq, Val, Unsupported

LEVEL = "model_checking"
EXPLANATION = ("The operator arms of NodeTy::from (AST -> typed AST) and convert_node (typed AST -> Core) are executed "
               "symbolically from MIR with the node kind free; the Python operator each Core node prints is taken from the "
               "source-extracted to_py templates; z3 composes the stages and compares, for every documented Mamba "
               "operator, operator and operand order with the documented meaning. The Range arm of convert_range_slice is "
               "executed from MIR and its argument terms are compared with Python's range semantics over integers.")

CONVERT_RS = "src/generate/convert/mod.rs"
RANGE_RS = "src/generate/convert/range_slice.rs"
CHECK_NODE_RS = "src/check/ast/node.rs"

# documented meaning (docs/spec/characters.md, docs/spec/keywords.md, docs/features): node kind -> python operator
BINARY = {"Add": "+", "Sub": "-", "Mul": "*", "Div": "/", "FDiv": "//", "Pow": "**", "Mod": "%", "Eq": "==",
          "Neq": "!=", "Le": "<", "Leq": "<=", "Ge": ">", "Geq": ">=", "And": "and", "Or": "or", "Is": "is",
          "IsN": "is not", "In": "in", "BAnd": "&", "BOr": "|", "BXOr": "^", "BLShift": "<<", "BRShift": ">>",
          "Question": "or"}
UNARY = {"AddU": "+", "SubU": "-", "Not": "not", "BOneCmpl": "~"}
CALLS = {"Sqrt": "math.sqrt", "IsA": "isinstance"}
# Mamba spelling of each node kind (for replay programs) and sample operands
MAMBA = {"Add": "7 + 3", "Sub": "7 - 3", "Mul": "7 * 3", "Div": "7 / 2", "FDiv": "7 // 2", "Pow": "7 ^ 2", "Mod": "7 mod 3",
         "Eq": "7 = 3", "Le": "7 < 3", "Leq": "7 <= 7", "Ge": "7 > 3", "Geq": "3 >= 7",
         "And": "True and False", "Or": "False or True", "BAnd": "6 _and_ 3", "BOr": "6 _or_ 3", "BXOr": "6 _xor_ 3",
         "BLShift": "3 << 2", "BRShift": "16 >> 2", "AddU": "+7", "SubU": "-7", "Not": "not True", "BOneCmpl": "_not_ 5",
         "Sqrt": "sqrt 16", "In": "7 in [1, 7]"}
EXPECT = {"Add": "10", "Sub": "4", "Mul": "21", "Div": "3.5", "FDiv": "3", "Pow": "49", "Mod": "1", "Eq": "False",
          "Neq": "True", "Le": "False", "Leq": "True", "Ge": "True", "Geq": "False", "And": "False", "Or": "True",
          "BAnd": "2", "BOr": "7", "BXOr": "5", "BLShift": "12", "BRShift": "4", "AddU": "7", "SubU": "-7", "Not": "False",
          "BOneCmpl": "-6", "Sqrt": "4.0", "In": "True"}


def py_run(code):
    try:
        p = subprocess.run(["python3", "-c", code], capture_output=True, text=True, timeout=20)
        return p.returncode, p.stdout, p.stderr[-300:]
    except Exception as e:   # pragma: no cover
        return -1, "", str(e)


def operator_family(rp, only=None):
    bad, n = [], 0
    for k, expr in MAMBA.items():
        if only and k not in only:
            continue
        n += 1
        for src in (f"def r := {expr}\nprint(r)", f"def r: Int := {expr}\nprint(r)"):
            st, out = rp.transpile(src)
            if st == "OK":
                break
        if st != "OK":
            bad.append({"role": k, "src": src, "why": f"{st}: {out[:120]}"})
            continue
        rc, so, se = py_run(out)
        if rc != 0 or so.strip() != EXPECT[k]:
            bad.append({"role": k, "src": src, "why": f"emitted {out.strip()!r} prints {so.strip()!r} (rc={rc} {se[-80:]}), documented meaning gives {EXPECT[k]}"})
    return n, bad


def range_family(rp):
    bad, n = [], 0
    for a, b, s, incl in ((0, 5, None, False), (0, 5, None, True), (1, 10, 3, False), (1, 10, 3, True), (2, 2, None, False),
                          (2, 2, None, True), (-3, 4, 2, True), (0, 9, 3, True), (0, 9, 3, False)):
        op = "..=" if incl else ".."
        src = f"for i in {a} {op} {b}" + (f" .. {s}" if s else "") + " do print(i)"
        st, out = rp.transpile(src)
        n += 1
        step = s or 1
        want = [x for x in range(a, b + 100, step) if (x <= b if incl else x < b)]
        if st != "OK":
            bad.append({"role": "range", "src": src, "why": f"{st}: {out[:100]}"})
            continue
        rc, so, se = py_run(out)
        got = [int(x) for x in so.split()] if rc == 0 else None
        if got != want:
            bad.append({"role": "range:inclusive" if incl else "range:exclusive", "src": src,
                        "why": f"emitted {out.strip()!r} yields {got}, documented meaning {want}"})
    return n, bad


def fam_replay(fn, rp, what, **kw):
    def f(model):
        n, bad = fn(rp, **kw)
        if bad:
            return {"reproduced": True, "role": f"{what}:{bad[0]['role']}", "detail": f"{bad[0]['src']!r}: {bad[0]['why']}",
                    "all_roles": sorted({b["role"] for b in bad})}
        return {"reproduced": False, "detail": f"{n} programs behave as documented"}
    return f


def template_ops(tpl):
    """Core variant -> ('infix', op) | ('prefix', op) | ('call', name) | None from the to_py templates."""
    out = {}
    for v, arms in tpl.items():
        if len(arms) != 1 or arms[0]["template"] is None:
            continue
        t = arms[0]["template"]
        kinds = [p[0] for p in t]
        if kinds == ["child", "lit", "child"]:
            out[v] = ("infix", t[1][1].strip(), t[0][1], t[2][1])
        elif kinds == ["lit", "child"]:
            out[v] = ("prefix", t[0][1].strip(), t[1][1])
        elif kinds == ["lit", "child", "lit"] and t[0][1].endswith("(") and t[2][1] == ")":
            out[v] = ("call", t[0][1][:-1], t[1][1])
        elif kinds == ["lit", "child", "lit", "child", "lit"] and t[0][1].endswith("(") and t[4][1] == ")":
            out[v] = ("call2", t[0][1][:-1], t[1][1], t[3][1])
    return out


TAILS = {"IfElse": ["then", "el"], "Match": ["cases"], "Case": ["body"], "TryExcept": ["attempt", "except"],
         "ExceptId": ["body"], "Except": ["body"]}
PLAIN = ["Add", "Id", "Int", "FunctionCall", "PropertyCall", "Ternary", "Tuple", "Str", "Not", "Index"]

RET_PROGRAMS = [
    ("tail-if-else", "def f(x: Int) -> Int =>\n    if x > 1 then\n        10\n    else\n        20\nprint(f(0))\nprint(f(5))", "20\n10"),
    ("tail-nested-if", "def f(x: Int) -> Int =>\n    if x > 1 then\n        if x > 3 then\n            1\n        else\n            2\n    else\n        3\nprint(f(5))\nprint(f(2))\nprint(f(0))", "1\n2\n3"),
    ("tail-block", "def f(x: Int) -> Int =>\n    def y := x + 1\n    y * 2\nprint(f(1))", "4"),
    ("tail-match", "def f(x: Int) -> Int =>\n    match x\n        1 => 10\n        _ => 20\nprint(f(1))\nprint(f(3))", "10\n20"),
    ("tail-handle-anonymous-arm", "class MyErr(msg: Str): Exception(msg)\n\ndef risky(x: Int) -> Int raise [MyErr] =>\n    if x > 2 then raise MyErr(\"too big\") else x * 2\n\ndef safe(x: Int) -> Int =>\n    risky(x) handle\n        _: MyErr => -1\n\nprint(safe(1))\nprint(safe(7))", "2\n-1"),
    ("tail-handle-named-arm", "class MyErr(msg: Str): Exception(msg)\n\ndef risky(x: Int) -> Int raise [MyErr] =>\n    if x > 2 then raise MyErr(\"too big\") else x * 2\n\ndef named(x: Int) -> Int =>\n    risky(x) handle\n        err: MyErr => -1\n\nprint(named(1))\nprint(named(7))", "2\n-1"),
    ("tail-explicit-return", "def f(x: Int) -> Int =>\n    return x + 1\nprint(f(1))", "2"),
    ("assign-if-block-ending-in-handle", "def checked(n: Int) -> Int raise [Exception] =>\n    if n < 0 then raise Exception(\"negative\") else n\n\n"
     "def score(n: Int, strict: Bool) -> Int =>\n    def base: Int := if strict then\n        print(\"strict\")\n        checked(n) handle\n            err: Exception => 0 - 1\n"
     "    else\n        print(\"lenient\")\n        checked(n) handle\n            _: Exception => 7\n    base + 100\n\n"
     "print(score(5, True))\nprint(score(0 - 5, True))\nprint(score(5, False))\nprint(score(0 - 5, False))", "strict\n105\nstrict\n99\nlenient\n105\nlenient\n107"),
    ("assign-if-expression", "def x := if True then 1 else 2\nprint(x)", "1"),
    ("assign-match-expression", "def a := 3\ndef x: Int := match a\n    1 => 10\n    _ => 20\nprint(x)", "20"),
]


def ret_family(rp):
    bad, n = [], 0
    for role, src, want in RET_PROGRAMS:
        for ann in (False, True):
            n += 1
            st, out = rp.transpile(src, ann)
            if st != "OK":
                bad.append({"role": role, "src": src, "why": f"{st}: {out[:100]}"})
                break
            rc, so, se = py_run(out)
            if rc != 0 or so.strip() != want:
                bad.append({"role": role, "src": src, "why": f"annotate={ann}: prints {so.strip()!r} (rc={rc} {se[-80:]}), expected {want!r}"})
                break
    return n, bad


def ob_tail_distribution(run, mir, rp):
    """append_ret / append_assign push the return / assignment into every tail position and nowhere else."""
    lay = e2.rust_enum("src/generate/ast/node.rs", "Core")
    for fname, wrap in (("append_ret", "Return"), ("append_assign", "VarDef")):
        ob = run.ob(f"{fname.replace('_', '-')}-distribution", "E2", f"{fname}: for if/else, match, case, try/except and both "
                    "except forms the operation is applied to exactly the tail positions (branches, arms, bodies, last "
                    "statement of a block) and all other fields are kept; return / raise are left alone; any other node is "
                    f"wrapped in a {wrap}", [fname, "skip_return", "skip_assign"])
        try:
            fn = e2.find1(mir, file=CONVERT_RS, name=fname)
            claims = []
            ex = Exec(mir, max_paths=5000, inline=[r"^skip_return$", r"^skip_assign$"])
            extra_args = lambda ex_, st_: [] if fname == "append_ret" else [Ref(ex_.new_cell(st_, opq("assign_to", "Core"))), Ref(ex_.new_cell(st_, opq("name", "Option<Name>"))), Ref(ex_.new_cell(st_, opq("imp", "Imports")))]
            for v in list(TAILS) + ["Return", "Raise"] + PLAIN:
                if v not in lay:
                    raise Unsupported(f"Core::{v} not found")
                fields = lay[v] or []
                st = State()
                vals = [opq(f"{v}.{f}", "Box<Core>") for f in fields]
                core = Agg("Core", v, vals, fields if fields else None)
                xs = extra_args(ex, st)
                ends = e2.run_kernel(run, ex, fn, [Ref(ex.new_cell(st, core))] + xs, st)
                for p in ends:
                    c = conj(p.cond)
                    s = p.state
                    if p.kind != "return" or not isinstance(p.ret, Agg):
                        claims.append(z3.Not(c))
                        continue
                    r = p.ret
                    if v in TAILS:
                        ok = [z3.BoolVal(r.variant == v and list(r.names or []) == list(fields))]
                        if r.variant == v and list(r.names or []) == list(fields):
                            for f, old, new in zip(fields, vals, r.fields):
                                if f in TAILS[v]:
                                    rest = [ex.to_val(s, x) for x in xs]
                                    one = ex.app(fname, [old] + xs, "Core", s)
                                    many = ex.app("Iterator::collect", [ex.app("Iterator::map", [ex.app("iter", [old], "Iter", s),
                                                  ex.fnval(fname)], "Map", s)], "Vec<Core>", s)
                                    nv = ex.to_val(s, new)
                                    if fname == "append_ret":
                                        ok.append(z3.Or(nv == ex.to_val(s, one), nv == ex.to_val(s, many)))
                                    else:
                                        # the closure of append_assign captures its extra arguments: compare by the call events
                                        evs = [e_ for e_ in p.events if e_["name"] == fname and z3.eq(e_["argvals"][0], ex.to_val(s, old))]
                                        viamap = any(e_["name"] == "Iterator::map" and z3.eq(e_["argvals"][0], ex.to_val(s, ex.app("iter", [old], "Iter", s))) for e_ in p.events)
                                        ok.append(z3.BoolVal(bool(evs) or viamap))
                                        if evs:
                                            ok.append(nv == ex.to_val(s, evs[0]["ret"]))
                                        ok.append(nv != ex.to_val(s, old) if False else z3.BoolVal(True))
                                else:
                                    ok.append(ex.to_val(s, new) == ex.to_val(s, old))
                        claims.append(z3.Implies(c, conj(ok)))
                    elif v in ("Return", "Raise"):
                        claims.append(z3.Implies(c, ex.to_val(s, r) == ex.to_val(s, core)))
                    else:
                        if fname == "append_ret":
                            claims.append(z3.Implies(c, z3.And(z3.BoolVal(r.variant == "Return"), ex.to_val(s, r.fields[0]) == ex.to_val(s, core)) if r.variant == "Return" else z3.BoolVal(False)))
                        else:
                            okv = r.variant == "VarDef" and r.names and "expr" in r.names
                            claims.append(z3.Implies(c, z3.BoolVal(bool(okv))))
            # Block: the operation goes to the last statement
            st = State()
            stmts = opq("Block.statements", "Vec<Core>")
            core = Agg("Core", "Block", [stmts], ["statements"])
            xs = extra_args(ex, st)
            ends = e2.run_kernel(run, ex, fn, [Ref(ex.new_cell(st, core))] + xs, st)
            for p in ends:
                if p.kind == "panic":
                    continue            # len() - 1 on a vector that has a last element
                c = conj(p.cond)
                s = p.state
                lasts = calls(p, "last")
                rec = calls(p, fname)
                idx = calls(p, "Vec.IndexMut::index_mut")
                if rec:
                    lastv = ex.project(s, ex.project(s, lasts[0]["ret"], ("v", "Some")), ("f", 0), "&Core") if lasts else None
                    ok = bool(lasts) and bool(idx) and z3.eq(rec[0]["argvals"][0], ex.to_val(s, lastv))
                    claims.append(z3.Implies(c, z3.BoolVal(bool(ok))))
                    if ok:
                        ln = ex.uf("seq:len", Val, z3.BitVecSort(64))(ex.to_val(s, stmts))
                        claims.append(z3.Implies(c, idx[0]["argvals"][1] == ex.to_val(s, ln - 1)))
                else:
                    claims.append(z3.Implies(c, z3.BoolVal(bool(lasts))))

            def rp_ret(model):
                n, bad = ret_family(rp)
                if bad:
                    return {"reproduced": True, "role": f"{fname}:{bad[0]['role']}", "detail": f"{bad[0]['src']!r}: {bad[0]['why']}"}
                return {"reproduced": False, "detail": f"{n} implicit-return / expression-assignment programs behave as documented"}
            e2.prove_each(run, ob, ex, [], claims, {}, rp_ret)
        except Unsupported as e:
            ob.inconclusive(f"unsupported: {e}")


def structure_family(rp, only=None):
    bad, n = [], 0
    for kind, progs in convkern.STRUCT_PROGRAMS.items():
        if only and kind not in only:
            continue
        for i, prog in enumerate(progs):
            src, want = prog[0], prog[1]
            n += 1
            st, out = rp.transpile(src)
            if st == "OK" and len(prog) > 2:
                out = out + "\n" + prog[2] + "\n"      # Python caller of the generated code
            if st != "OK":
                bad.append({"role": f"{kind}#{i}", "src": src, "why": f"{st}: {out[:160]}"})
                continue
            rc, so, se = py_run(out)
            if rc != 0 or so.strip() != want:
                bad.append({"role": f"{kind}#{i}", "src": src, "why": f"emitted {out.strip()[:300]!r} prints {so.strip()!r} (rc={rc} {se[-120:]}), "
                            f"documented meaning gives {want!r}"})
    return n, bad


# node kinds whose replay programs exercise an arm that only dispatches / is reached through other kinds
RELATED = {"Handle": ["HandleId", "Raise"], "ExpressionType": ["Match", "Handle"], "Underscore": ["Match"], "Break": ["For", "While"], "Continue": ["For", "While"],
           "VariableDef": ["Block", "Reassign"], "FunDef": ["FunctionCall", "Block", "FunArg"], "FunArg": ["FunctionCall"],
           "Class": ["PropertyCall"], "Parent": ["Raise"], "TypeDef": [], "TypeAlias": [], "Range": [], "Slice": [],
           "DocStr": [], "With": [], "IsNA": [], "Pass": ["Pass"]}


ASSIGN_OPS = {"Assign": ("=", "x := 3", "3"), "Add": ("+=", "x += 3", "10"), "Sub": ("-=", "x -= 3", "4"), "Mul": ("*=", "x *= 3", "21"),
              "Div": ("/=", None, None), "Pow": ("**=", "x ^= 2", "49"), "BLShift": ("<<=", "x <<= 2", "28"), "BRShift": (">>=", "x >>= 1", "3")}


def assign_family(rp, only=None):
    bad, n = [], 0
    for k, (_py, stmt, want) in ASSIGN_OPS.items():
        if stmt is None or (only and k not in only):
            continue
        n += 1
        src = f"def x: Int := 7\n{stmt}\nprint(x)"
        st, out = rp.transpile(src)
        if st != "OK":
            bad.append({"role": k, "src": src, "why": f"{st}: {out[:120]}"})
            continue
        rc, so, se = py_run(out)
        if rc != 0 or so.strip() != want:
            bad.append({"role": k, "src": src, "why": f"emitted {out.strip()!r} prints {so.strip()!r} (rc={rc}), documented meaning gives {want}"})
    return n, bad


def ob_assign_ops(run, mir, rp):
    ob = run.ob("assignment-operator-table", "E2+E3+z3", "CoreOp::try_from maps every (compound) assignment operator to the Core operator "
                "that Display prints as the Python operator of the same meaning; any other operator is an error", ["CoreOp::try_from", "Display for CoreOp"])
    try:
        NODE_RS = "src/generate/ast/node.rs"
        fn = e2.find1(mir, file=NODE_RS, impl="TryFrom<(&ASTTy, &NodeOp)> for CoreOp", name="try_from")
        src = common.read_repo(NODE_RS)
        m = re.search(r"impl Display for CoreOp \{(.*?)\n\}\n", src, re.S)
        if not m:
            raise Unsupported("Display for CoreOp not found")
        shown = dict(re.findall(r"CoreOp::(\w+)\s*=>\s*\"([^\"]*)\"", m.group(1)))
        ex = Exec(mir, max_paths=2000)
        nodeops = ex.enum_variants("NodeOp")
        got = {}
        for k in nodeops:
            st = State()
            astr = Ref(ex.new_cell(st, Opq(z3.Const("ast", Val), "ASTTy")))
            opr = Ref(ex.new_cell(st, Agg("NodeOp", k, [])))
            ends = e2.run_kernel(run, ex, fn, [Agg("tuple", None, [astr, opr])], st)
            rets = [p for p in ends if p.kind == "return"]
            if len(rets) != 1:
                raise Unsupported(f"{k}: {len(rets)} return paths")
            r = rets[0].ret
            if isinstance(r, Agg) and r.variant == "Ok" and isinstance(r.fields[0], Agg):
                got[k] = shown.get(r.fields[0].variant, "?" + r.fields[0].variant)
            else:
                got[k] = None
        texts = sorted({v[0] for v in ASSIGN_OPS.values()} | {g for g in got.values() if g} | {"<err>"})
        kv = z3.Int("node_op")
        g, w = z3.IntVal(-1), z3.IntVal(-1)
        for k in nodeops:
            g = z3.If(kv == nodeops.index(k), z3.IntVal(texts.index(got[k] or "<err>")), g)
            w = z3.If(kv == nodeops.index(k), z3.IntVal(texts.index(ASSIGN_OPS[k][0] if k in ASSIGN_OPS else "<err>")), w)
        dom = z3.And(kv >= 0, kv < len(nodeops))
        found, block = [], []
        for _ in range(len(nodeops) + 1):
            r_, m_, dt, _s = e2.solve(ex, [dom, g != w] + block)
            ob.solver_s += dt
            ob.queries += 1
            if r_ != z3.sat:
                break
            ki = m_.eval(kv).as_long()
            found.append(nodeops[ki])
            block.append(kv != ki)
        ob.reach = "sat"
        run.samples.append({"obligation": ob.id, "table": got})
        if not found:
            ob.discharged(f"unsat over {len(nodeops)} operators")
        else:
            n, bad = assign_family(rp, only=set(found))
            if bad:
                ob.violated(f"assignment-operator:{bad[0]['role']}", {"operators": found, "table": {k: got[k] for k in found}}, bad[0],
                            f"{bad[0]['src']!r}: {bad[0]['why']}")
            else:
                ob.inconclusive(f"solver reports {found} as mis-translated ({ {k: got[k] for k in found} }) but the replay programs behave as documented")
    except Unsupported as e:
        ob.inconclusive(str(e))


PARSER_RS = "src/parse/operation.rs"
# documented precedence (doc comment of parse_expression): level -> (parser of the first operand, {token: (node kind, parser of the right operand)})
PRECEDENCE = {
    7: ("parse_level_6", {"And": ("And", "parse_level_7"), "Or": ("Or", "parse_level_7"), "Question": ("Question", "parse_level_7")}),
    6: ("parse_level_5", {t: (t, "parse_level_6") for t in ("Ge", "Geq", "Le", "Leq", "Eq", "Neq", "Is", "IsA", "In")}),
    5: ("parse_level_4", {t: (t, "parse_level_5") for t in ("BLShift", "BRShift", "BAnd", "BOr", "BXOr")}),
    4: ("parse_level_3", {t: (t, "parse_level_4") for t in ("Add", "Sub")}),
    3: ("parse_level_2", {t: (t, "parse_level_3") for t in ("Mul", "Div", "FDiv", "Mod")}),
    1: ("parse_inner_expression", {"Pow": ("Pow", "parse_level_1"), "Question": ("Question", "parse_expression")}),
}
UNARY_PARSE = {"Add": ("AddU", "parse_level_2"), "Sub": ("SubU", "parse_level_2"), "Sqrt": ("Sqrt", "parse_expression"),
               "Not": ("Not", "parse_expression"), "BOneCmpl": ("BOneCmpl", "parse_expression")}
PRECEDENCE_PROGRAMS = [
    ("mul-before-add", "print(2 + 3 * 4)", "14"), ("mul-before-add-left", "print(2 * 3 + 4)", "10"), ("pow-right-assoc", "print(2 ^ 3 ^ 2)", "512"),
    ("sub-mul", "print(7 - 2 * 3)", "1"), ("unary-minus-tight", "def a := 3\ndef b := 4\nprint(b * -a + 1)", "-11"),
    ("unary-minus-floor-div", "def a := 3\nprint(10 // -a + 1)", "-3"), ("unary-minus-pow", "def r: Int := -2 ^ 2\nprint(r)", "-4"),
    ("compare-after-add", "print(1 + 2 > 2)", "True"), ("and-after-compare", "print(1 + 2 > 2 and 1 > 2)", "False"),
    ("shift-after-add", "def r: Int := 1 << 2 + 1\nprint(r)", "8"), ("bitand-after-add", "def r: Int := 6 _and_ 3 + 1\nprint(r)", "4"), ("unary-plus", "def a := 3\nprint(2 * +a + 1)", "7"),
    ("mod-before-add", "print(7 mod 4 + 1)", "4"), ("floor-div-before-sub", "print(9 // 2 - 1)", "3"),
]


def precedence_family(rp, only=None):
    bad, n = [], 0
    for role, src, want in PRECEDENCE_PROGRAMS:
        n += 1
        st, out = rp.transpile(src)
        if st != "OK":
            bad.append({"role": role, "src": src, "why": f"{st}: {out[:120]}"})
            continue
        rc, so, se = py_run(out)
        if rc != 0 or so.strip() != want:
            bad.append({"role": role, "src": src, "why": f"emitted {out.strip()!r} prints {so.strip()!r} (rc={rc}), the documented precedence gives {want}"})
    return n, bad


def ob_parser_table(run, mir, rp):
    ob = run.ob("parser-precedence-table", "E2+z3", "the operator-precedence parser: each level parses its first operand with the next tighter "
                "level, builds for every operator token the node of that operator with the first operand on the left, and parses the right "
                "operand with the documented level (same level: right-nested chains; unary + and - bind tighter than every binary operator "
                "but **)", ["parse_level_1..7 and their closures"])
    try:
        ex = Exec(mir, max_paths=20000)
        tokens = ex.enum_variants("Token")
        got_first, got = {}, {}

        def fn_name(v, st):
            v = ex.read_ref(st, v) if isinstance(v, Ref) else v
            from mirsym import FnItem
            if isinstance(v, FnItem):
                return v.text.split("::")[-1]
            if isinstance(v, Agg) and not v.fields:
                return str(v.ty or v.variant).split("::")[-1]
            return str(v)[:60]
        for lvl, (first, table) in PRECEDENCE.items():
            fn = mir.fns.get(f"parse_level_{lvl}")
            cl = mir.fns.get(f"parse_level_{lvl}::{{closure#0}}")
            if fn is None or cl is None:
                raise Unsupported(f"parse_level_{lvl} not found")
            st = State()
            it = Ref(ex.new_cell(st, Opq(z3.Const("it", Val), "LexIterator")))
            ends = e2.run_kernel(run, ex, fn, [it], st)
            firsts = set()
            for p in ends:
                pe = [e_ for e_ in p.events if e_["name"].endswith("LexIterator::parse")]
                if pe:
                    firsts.add(fn_name(pe[0]["args"][1], p.state))
            got_first[lvl] = firsts
            # the closure: one path per operator token
            st = State()
            arith = Opq(z3.Const("arithmetic", Val), "Box<AST>")
            start = Opq(z3.Const("start", Val), "Position")
            ncap = 2
            env = Agg("closure", cl.args[0][1].lstrip("&"), [Ref(ex.new_cell(st, start)), Ref(ex.new_cell(st, arith))])
            it = Ref(ex.new_cell(st, Opq(z3.Const("it", Val), "LexIterator")))
            lex = Ref(ex.new_cell(st, Opq(z3.Const("lex", Val), "Lex")))
            ends = e2.run_kernel(run, ex, cl, [Ref(ex.new_cell(st, env)), it, lex], st)
            tab = {}
            for p in ends:
                if not (p.kind == "return" and isinstance(p.ret, Agg) and p.ret.variant == "Ok"):
                    continue
                eats = [e_ for e_ in p.events if e_["name"].endswith("LexIterator::eat")]
                pes = [e_ for e_ in p.events if e_["name"].endswith("LexIterator::parse")]
                if not eats:
                    continue            # no operator: the first operand is the result
                tokv = ex.read_ref(p.state, eats[0]["args"][1]) if isinstance(eats[0]["args"][1], Ref) else eats[0]["args"][1]
                tok = tokv.variant if isinstance(tokv, Agg) else "?"
                if tok in ("Range", "RangeIncl", "Slice", "SliceIncl"):
                    continue            # range / slice construction: checked by range-desugaring
                news = [e_ for e_ in p.events if e_["name"].endswith("AST::new")]
                node = None
                for nw in news:
                    nv = nw["args"][1]
                    nv = ex.read_ref(p.state, nv) if isinstance(nv, Ref) else nv
                    if isinstance(nv, Agg) and nv.ty == "Node":
                        node = nv
                left_ok = right_ok = False
                kind = "?"
                if node is not None and pes:
                    kind = node.variant
                    okp = ex.project(p.state, ex.project(p.state, pes[0]["ret"], ("v", "Ok")), ("f", 0), "Box<AST>")
                    names_ = list(node.names or [])
                    if "left" in names_ and "right" in names_:
                        left_ok = z3.eq(z3.simplify(ex.to_val(p.state, node.fields[names_.index("left")])), z3.simplify(ex.to_val(p.state, arith)))
                        right_ok = z3.eq(z3.simplify(ex.to_val(p.state, node.fields[names_.index("right")])), z3.simplify(ex.to_val(p.state, okp)))
                tab.setdefault(tok, set()).add((kind, fn_name(pes[0]["args"][1], p.state) if pes else "?", bool(left_ok and right_ok)))
            got[lvl] = tab
        # unary level
        fn2 = mir.fns.get("parse_level_2")
        st = State()
        it = Ref(ex.new_cell(st, Opq(z3.Const("it", Val), "LexIterator")))
        ends = e2.run_kernel(run, ex, fn2, [it], st)
        un = {}
        fallthrough = set()
        for p in ends:
            if not (p.kind == "return"):
                continue
            eatifs = [e_ for e_ in p.events if e_["name"].endswith("LexIterator::eat_if")]
            taken = None
            for e_ in eatifs:
                d = ex.discr(p.state, e_["ret"], "Option")
                r_, _m, _dt, _s = e2.solve(ex, list(p.cond) + [d != 1])
                if r_ == z3.unsat:      # this eat_if returned Some on this path
                    tv = ex.read_ref(p.state, e_["args"][1]) if isinstance(e_["args"][1], Ref) else e_["args"][1]
                    taken = tv.variant if isinstance(tv, Agg) else "?"
            pes = [e_ for e_ in p.events if e_["name"].endswith("LexIterator::parse")]
            if taken is None:
                calls_ = [e_["name"] for e_ in p.events if e_["name"].startswith("parse_level_")]
                fallthrough.update(calls_)
                continue
            if not (isinstance(p.ret, Agg) and p.ret.variant == "Ok"):
                continue
            news = [e_ for e_ in p.events if e_["name"].endswith("AST::new")]
            kind = "?"
            for nw in news:
                nv = nw["args"][1]
                nv = ex.read_ref(p.state, nv) if isinstance(nv, Ref) else nv
                if isinstance(nv, Agg) and nv.ty == "Node":
                    kind = nv.variant
            un.setdefault(taken, set()).add((kind, fn_name(pes[0]["args"][1], p.state) if pes else "?"))
        # decide with z3 over (level, token)
        lv, tk = z3.Int("level"), z3.Int("token")
        okv = z3.BoolVal(True)
        dom = []
        for lvl, (first, table) in PRECEDENCE.items():
            okv = z3.If(z3.And(lv == lvl, tk == -1), z3.BoolVal(got_first[lvl] == {first}), okv)
            dom.append(z3.And(lv == lvl, tk == -1))
            for tok, (kind, rfn) in table.items():
                okv = z3.If(z3.And(lv == lvl, tk == tokens.index(tok)), z3.BoolVal(got[lvl].get(tok) == {(kind, rfn, True)}), okv)
                dom.append(z3.And(lv == lvl, tk == tokens.index(tok)))
            extra = set(got[lvl]) - set(table)
            okv = z3.If(z3.And(lv == lvl, tk == -2), z3.BoolVal(not extra), okv)
            dom.append(z3.And(lv == lvl, tk == -2))
        for tok, (kind, rfn) in UNARY_PARSE.items():
            okv = z3.If(z3.And(lv == 2, tk == tokens.index(tok)), z3.BoolVal(un.get(tok) == {(kind, rfn)}), okv)
            dom.append(z3.And(lv == 2, tk == tokens.index(tok)))
        okv = z3.If(z3.And(lv == 2, tk == -1), z3.BoolVal(fallthrough == {"parse_level_1"}), okv)
        dom.append(z3.And(lv == 2, tk == -1))
        found, block = [], []
        for _ in range(80):
            r_, m_, dt, _s = e2.solve(ex, [disj(dom), z3.Not(okv)] + block)
            ob.solver_s += dt
            ob.queries += 1
            if r_ != z3.sat:
                break
            l_, t_ = m_.eval(lv).as_long(), m_.eval(tk).as_long()
            found.append((l_, tokens[t_] if t_ >= 0 else {-1: "<first operand>", -2: "<unexpected operator>"}[t_]))
            block.append(z3.Not(z3.And(lv == l_, tk == t_)))
        ob.reach = "sat"
        run.samples.append({"obligation": ob.id, "first_operand": {str(k): sorted(v) for k, v in got_first.items()},
                            "unary": {k: sorted(map(str, v)) for k, v in un.items()}, "level4": {k: sorted(map(str, v)) for k, v in got[4].items()}})
        if not found:
            ob.discharged(f"unsat over {len(dom)} (level, token) entries")
        else:
            n, bad = precedence_family(rp)
            if bad:
                ob.violated(f"parser-precedence:{bad[0]['role']}", {"entries": found}, bad[0], f"{bad[0]['src']!r}: {bad[0]['why']}")
            else:
                ob.inconclusive(f"solver reports parser table entries {found} as different from the documented precedence but the {n} replay programs evaluate as documented")
    except Unsupported as e:
        ob.inconclusive(str(e))


def ob_structure(run, mir, rp, only_fns=None):
    """Every arm of the typed-AST -> Core converters builds the documented Core shape from the conversions of its children."""
    groups = {}
    for sp in convkern.specs():
        if only_fns and sp["fn"] not in only_fns:
            continue
        groups.setdefault(sp["fn"], []).append(sp)
    for fnname, sps in groups.items():
        ob = run.ob(f"structure-{fnname.replace('_', '-')}", "E2",
                    f"{fnname}: for every node kind it handles, the Core value it returns has the documented shape - each slot holds "
                    "the conversion of the child of the same role (term equality), converted with the generator flags the role "
                    "requires; loops append one well-formed element per case; it fails only when a recursive conversion failed; "
                    "pending return / assignment post-processing follows the two flags", [fnname, "State setters (inlined)"])
        try:
            hyps_claims, notes_by_kind, npaths = [], {}, 0
            ex0 = None
            for sp in sps:
                arm, oks, pairs, notes = convkern.check_arm(run, mir, sp)
                if not oks:
                    raise Unsupported(f"{fnname}:{sp['kind']}: no Ok path")
                if sp.get("loop"):
                    n, lp, nts = convkern.check_loop(arm, sp)
                    if not n:
                        raise Unsupported(f"{fnname}:{sp['kind']}: no loop iteration appends an element")
                    pairs = pairs + lp
                    notes = notes + nts
                pairs = pairs + convkern.err_pairs(arm, sp)
                npaths += len(arm.ends)
                if notes:
                    notes_by_kind[sp["kind"]] = notes[:3]
                hyps_claims.append((sp["kind"], arm, pairs))
            bad_kinds, reach_ok = [], True
            for kind, arm, pairs in hyps_claims:
                for hyp, cl in pairs:
                    r0, _m, dt0, _ = e2.solve(arm.ex, [hyp])
                    r, m, dt, _s = e2.solve(arm.ex, [hyp, z3.Not(cl)])
                    ob.solver_s += dt0 + dt
                    ob.queries += 2
                    if r0 != z3.sat:
                        continue        # infeasible path (pruning is lazy)
                    if r == z3.unsat:
                        continue
                    if r != z3.sat:
                        raise Unsupported(f"solver answered {r} for {kind}")
                    if kind not in bad_kinds:
                        bad_kinds.append(kind)
            ob.reach = "sat"
            run.samples.append({"obligation": ob.id, "kinds": [sp["kind"] for sp in sps], "paths": npaths, "flagged": bad_kinds,
                                "notes": notes_by_kind})
            if not bad_kinds:
                ob.discharged(f"unsat for {len(sps)} node kinds ({npaths} paths)")
                continue
            only = set()
            for k in bad_kinds:
                only.add(k)
                only.update(RELATED.get(k, []))
            n, bad = structure_family(rp, only=only)
            if bad:
                ob.violated(f"structure:{bad[0]['role']}", {"node_kinds": bad_kinds, "notes": {k: notes_by_kind.get(k) for k in bad_kinds}},
                            bad[0], f"{bad[0]['src']!r}: {bad[0]['why']}")
            else:
                ob.inconclusive(f"solver reports that {fnname} does not build the documented shape for {bad_kinds} "
                                f"({ {k: notes_by_kind.get(k) for k in bad_kinds} }) but the {n} replay programs of these kinds behave as documented")
        except Unsupported as e:
            ob.inconclusive(str(e))


def run(run):
    mir = e2.load_mir(run)
    rp = common.Replay()
    run.assume("documented operator meanings: docs/spec/characters.md and keywords.md (`^` power, `mod`, `=` equality, "
               "`_and_`/`_or_`/`_xor_`/`_not_` bitwise, `?` default, `sqrt`, `isa`)",
               "recursive convert_node / ASTTy::from calls are uninterpreted functions of the sub-tree they are given",
               "Python's range(A, B, S) = {A + k*S | k >= 0, A + k*S < B} for S > 0; integers a, b in [-8, 8], step in [1, 4]",
               "negative steps, slices, implicit returns, control flow as expression, handle, classes are outside this check")
    run.trusted += ["rustc nightly MIR dump", "mirsym MIR semantics", "srcsym templates (validated in C10)", "z3"]
    run.bounds = {"operators": "every documented binary / unary operator kind", "range": "a, b in [-8, 8], step in [1, 4], 18 iterations"}
    ops = dict(BINARY)
    ops.update(UNARY)

    # ---- stage A: Node -> NodeTy
    stageA = {}
    obA = run.ob("typed-ast-operators", "E2", "NodeTy::from maps every operator node to the node of the same kind with the "
                 "operands in the same order", ["NodeTy::from((&Node, &Finished))"])
    try:
        cands = [f for f in mir.fns.values() if f.impl_at and f.impl_at[0].endswith(CHECK_NODE_RS)
                 and f.name.endswith("::from") and len(f.args) == 1 and f.args[0][1].replace(" ", "").startswith("(&Node,")
                 and "Finished" in f.args[0][1] and f.ret.strip().endswith("NodeTy")]
        if len(cands) != 1:
            raise Unsupported(f"NodeTy::from lookup matched {len(cands)}")
        fnA = cands[0]
        exA = Exec(mir, max_paths=50000)
        bad = []
        for kind in list(ops) + list(CALLS):
            fields = ["expr"] if kind in UNARY or kind == "Sqrt" else ["left", "right"]
            stA = State()
            kids = [Opq(z3.Const(f"{kind}.{f}", Val), "Box<AST>") for f in fields]
            node = Agg("Node", kind, kids, fields)
            fin = Ref(exA.new_cell(stA, Opq(z3.Const("finished", Val), "Finished")))
            arg = Agg("tuple", None, [Ref(exA.new_cell(stA, node)), fin])
            ends = e2.run_kernel(run, exA, fnA, [arg], stA)
            rets = [p for p in ends if p.kind == "return"]
            if len(rets) != 1 or not isinstance(rets[0].ret, Agg):
                bad.append((kind, f"{len(rets)} return paths"))
                continue
            r = rets[0].ret
            evs = [ev for ev in rets[0].events if ev["name"].endswith("From::from") and "ASTTy" in ev["callee"]]
            order = []
            for ev in evs:
                a0 = ev["args"][0]
                a0 = a0.fields[0] if isinstance(a0, Agg) else a0
                v = exA.read_ref(rets[0].state, a0) if isinstance(a0, Ref) else a0
                order.append(next((f for f, k in zip(fields, kids) if v is k), None))
            stageA[kind] = (r.variant, list(r.names or []), order)
        claims = []
        kA = z3.Int("node_kind")
        nv = exA.enum_variants("Node")
        tv = exA.enum_variants("NodeTy")
        outA = z3.IntVal(-1)
        okA = z3.BoolVal(False)
        for kind, (variant, names, order) in stageA.items():
            fields = ["expr"] if kind in UNARY or kind == "Sqrt" else ["left", "right"]
            outA = z3.If(kA == nv.index(kind), z3.IntVal(tv.index(variant) if variant in tv else -2), outA)
            okA = z3.If(kA == nv.index(kind), z3.BoolVal(order == fields and names == fields), okA)
        dom = disj([kA == nv.index(k) for k in stageA])
        want = z3.IntVal(-1)
        for kind in stageA:
            want = z3.If(kA == nv.index(kind), z3.IntVal(tv.index(kind)), want)
        if bad:
            raise Unsupported(f"stage A: {bad[:3]}")
        e2.prove(run, obA, exA, [dom], z3.And(outA == want, okA), {"node_kind": kA}, fam_replay(operator_family, rp, "typed-ast"))
        run.samples.append({"obligation": obA.id, "mapping_sample": {k: stageA[k] for k in list(stageA)[:3]}})
    except Unsupported as e:
        obA.inconclusive(str(e))

    # ---- stage B: NodeTy -> Core, composed with the printer templates
    obB = run.ob("operator-table", "E2+E3+z3", "convert_node maps every operator node to a Core node that prints the "
                 "documented Python operator, operands converted in source order and placed left/right as in the source",
                 ["convert_node", "to_py"])
    try:
        tops = template_ops(srcsym.to_py_templates(common.read_repo("src/generate/ast/mod.rs")))
        fnB = e2.find1(mir, file=CONVERT_RS, name="convert_node")
        exB = Exec(mir, max_paths=50000)
        stageB = {}
        for kind in list(ops) + list(CALLS):
            fields = ["expr"] if kind in UNARY or kind == "Sqrt" else ["left", "right"]
            stB = State()
            kids = [Opq(z3.Const(f"{kind}.{f}", Val), "Box<ASTTy>") for f in fields]
            node = Agg("NodeTy", kind, kids, fields)
            names_ = re.findall(r"pub (\w+):", re.search(r"pub struct ASTTy \{(.*?)\}", common.read_repo("src/check/ast/mod.rs"), re.S).group(1))
            by = {"pos": Opq(z3.Const("pos", Val), "Position"), "node": node, "ty": Opq(z3.Const("ty", Val), "Option<Name>")}
            astv = Agg("ASTTy", None, [by[n] for n in names_], names_)
            imp = Ref(exB.new_cell(stB, Opq(z3.Const("imp", Val), "Imports")))
            state = Ref(exB.new_cell(stB, Opq(z3.Const("state", Val), "State")))
            ctx = Ref(exB.new_cell(stB, Opq(z3.Const("ctx", Val), "Context")))
            ends = e2.run_kernel(run, exB, fnB, [Ref(exB.new_cell(stB, astv)), imp, state, ctx], stB)
            # the plain path: every recursive conversion Ok, no append_assign / append_ret post-processing
            plain = []
            for p in ends:
                if p.kind != "return" or not (isinstance(p.ret, Agg) and p.ret.variant == "Ok"):
                    continue
                if any(ev["name"] in ("append_assign", "append_ret") for ev in p.events):
                    continue
                plain.append(p)
            if len(plain) != 1:
                stageB[kind] = ("?", f"{len(plain)} plain Ok paths", [], [])
                continue
            p = plain[0]
            core = p.ret.fields[0]
            if not isinstance(core, Agg):
                stageB[kind] = ("?", f"result {core}", [], [])
                continue
            conv = [ev for ev in p.events if ev["name"] == "convert_node"]
            order, wiring = [], {}
            for ev in conv:
                a0 = ev["args"][0]
                v = exB.read_ref(p.state, a0) if isinstance(a0, Ref) else a0
                src_f = next((f for f, k in zip(fields, kids) if v is k), None)
                order.append(src_f)
                okv = exB.to_val(stB, exB.project(stB, exB.project(stB, ev["ret"], ("v", "Ok")), ("f", 0), "Core"))
                wiring[okv.get_id()] = src_f

            def leaf_sources(c, prefix=""):
                out = {}
                if isinstance(c, Agg):
                    for nme, fv in zip(c.names or [str(i) for i in range(len(c.fields))], c.fields):
                        if isinstance(fv, Agg):
                            out.update(leaf_sources(fv, prefix + nme + "."))
                        else:
                            try:
                                out[prefix + nme] = wiring.get(exB.to_val(stB, fv).get_id())
                            except Unsupported:
                                out[prefix + nme] = None
                return out
            stageB[kind] = (core.variant, core, order, leaf_sources(core))
        # compose with templates, decide with z3 over the node kind
        kB = z3.Int("node_kind")
        tv = exB.enum_variants("NodeTy")
        got_op, got_ok, want_op = z3.IntVal(-1), z3.BoolVal(False), z3.IntVal(-1)
        optexts = sorted(set(ops.values()) | set(CALLS.values()) | {"?unknown"})
        for kind in list(ops) + list(CALLS):
            variant, core, order, srcs = stageB[kind]
            fields = ["expr"] if kind in UNARY or kind == "Sqrt" else ["left", "right"]
            t = tops.get(variant)
            ok = False
            optext = "?unknown"
            if kind == "IsA":
                ok = bool(t) and t[0] == "call2" and srcs.get(t[2]) == "left" and srcs.get(t[3]) == "right" and order == fields
                optext = t[1] if t else optext
            elif t and t[0] == "infix" and len(fields) == 2:
                ok = srcs.get(t[2]) == "left" and srcs.get(t[3]) == "right" and order == fields
                optext = t[1]
            elif t and t[0] == "prefix" and len(fields) == 1:
                ok = srcs.get(t[2]) == "expr" and order == fields
                optext = t[1]
            elif t and t[0] == "call" and len(fields) == 1:
                ok = srcs.get(t[2]) == "expr" and order == fields
                optext = t[1]
            elif kind == "IsNA":
                pass
            cond = kB == tv.index(kind)
            got_op = z3.If(cond, z3.IntVal(optexts.index(optext) if optext in optexts else optexts.index("?unknown")), got_op)
            got_ok = z3.If(cond, z3.BoolVal(bool(ok)), got_ok)
            want_op = z3.If(cond, z3.IntVal(optexts.index(ops.get(kind) or CALLS[kind])), want_op)
        dom = disj([kB == tv.index(k) for k in list(ops) + list(CALLS)])
        found, block = [], []
        for _ in range(60):
            r, m, dt, _s = e2.solve(exB, [dom, z3.Not(z3.And(got_op == want_op, got_ok))] + block)
            obB.solver_s += dt
            obB.queries += 1
            if r != z3.sat:
                break
            ki = m.eval(kB).as_long()
            found.append(tv[ki])
            block.append(kB != ki)
        obB.reach = "sat"
        run.samples.append({"obligation": obB.id, "table_sample": {k: (stageB[k][0], stageB[k][2], stageB[k][3]) for k in ("Sub", "Pow", "Not")}})
        if r not in (z3.sat, z3.unsat):
            obB.inconclusive(f"solver answered {r}")
        elif not found:
            obB.discharged(f"unsat over {len(ops) + len(CALLS)} operator kinds")
        else:
            n, bad = operator_family(rp, only=set(found) & set(MAMBA))
            if bad:
                obB.violated(f"operator-table:{bad[0]['role']}", {"kinds": found, "table": {k: str(stageB[k][:1]) + str(stageB[k][2:]) for k in found}},
                             bad[0], f"{bad[0]['src']!r}: {bad[0]['why']}")
            else:
                obB.inconclusive(f"solver reports operator kinds {found} as mis-translated "
                                 f"({ {k: (stageB[k][0], stageB[k][2], stageB[k][3]) for k in found} }) but their replay programs behave as documented")
    except (Unsupported, srcsym.SrcError) as e:
        obB.inconclusive(str(e))

    # ---- range
    obR = run.ob("range-desugaring", "E2+z3", "the Range arm of convert_range_slice yields range(A, B, S) whose integer "
                 "element set equals the documented {a, a+s, ...} below b (exclusive) / up to b (inclusive), default step 1",
                 ["convert_range_slice"])
    try:
        fnR = e2.find1(mir, file=RANGE_RS, name="convert_range_slice")
        exR = Exec(mir, max_paths=5000)
        stR = State()
        incl = z3.Bool("inclusive")
        has_step = z3.Bool("step.is_some")
        frm, to, stp = (Opq(z3.Const(n, Val), "Box<ASTTy>") for n in ("from", "to", "step"))
        stepv = Opq(z3.Const("stepopt", Val), "Option<Box<ASTTy>>", {("d",): z3.If(has_step, z3.IntVal(1), z3.IntVal(0)),
                                                                      ("v", "Some"): Agg("Option", "Some", [stp])})
        src_names = re.search(r"Range \{(.*?)\}", re.search(r"pub enum NodeTy \{(.*)", common.read_repo("src/check/ast/mod.rs"), re.S).group(1), re.S).group(1)
        fields = re.findall(r"(\w+):", src_names)
        by = {"from": frm, "to": to, "inclusive": incl, "step": stepv}
        if sorted(fields) != sorted(by):
            raise Unsupported(f"NodeTy::Range fields changed: {fields}")
        node = Agg("NodeTy", "Range", [by[f] for f in fields], fields)
        names_ = re.findall(r"pub (\w+):", re.search(r"pub struct ASTTy \{(.*?)\}", common.read_repo("src/check/ast/mod.rs"), re.S).group(1))
        by2 = {"pos": Opq(z3.Const("pos", Val), "Position"), "node": node, "ty": Opq(z3.Const("ty", Val), "Option<Name>")}
        astv = Agg("ASTTy", None, [by2[n] for n in names_], names_)
        imp = Ref(exR.new_cell(stR, Opq(z3.Const("imp", Val), "Imports")))
        state = Ref(exR.new_cell(stR, Opq(z3.Const("state", Val), "State")))
        ctx = Ref(exR.new_cell(stR, Opq(z3.Const("ctx", Val), "Context")))
        ends = e2.run_kernel(run, exR, fnR, [Ref(exR.new_cell(stR, astv)), imp, state, ctx], stR)
        a, b, s = z3.Ints("a b s")
        hyp = [a >= -8, a <= 8, b >= -8, b <= 8, s >= 1, s <= 4]
        claims = []
        okpaths = [p for p in ends if p.kind == "return" and isinstance(p.ret, Agg) and p.ret.variant == "Ok"]
        if not okpaths:
            raise Unsupported("no Ok path")
        for p in okpaths:
            conv = {}
            for ev in p.events:
                if ev["name"] == "convert_node":
                    a0 = ev["args"][0]
                    v = exR.read_ref(p.state, a0) if isinstance(a0, Ref) else a0
                    which = "a" if v is frm else "b" if v is to else "s" if v is stp else None
                    okv = exR.to_val(stR, exR.project(stR, exR.project(stR, ev["ret"], ("v", "Ok")), ("f", 0), "Core"))
                    conv[okv.get_id()] = which

            def ev_int(c):
                if isinstance(c, Agg) and c.variant in ("Add", "Sub"):
                    l, r_ = ev_int(c.fields[0]), ev_int(c.fields[1])
                    return (l + r_) if c.variant == "Add" else (l - r_)
                if isinstance(c, Agg) and c.variant == "Int" and isinstance(c.fields[0], StrC):
                    return z3.IntVal(int(c.fields[0].s))
                if isinstance(c, Agg) and c.variant == "SubU":
                    return -ev_int(c.fields[0])
                w = conv.get(exR.to_val(stR, c).get_id())
                if w is None:
                    raise Unsupported(f"range argument {c} is not a converted operand")
                return {"a": a, "b": b, "s": s}[w]
            core = p.ret.fields[0]
            if not (isinstance(core, Agg) and core.variant == "FunctionCall"):
                claims.append(z3.Not(conj(p.cond)))
                continue
            fd = dict(zip(core.names, core.fields))
            fun, args = fd["function"], fd["args"]
            isrange = isinstance(fun, Agg) and fun.variant == "Id" and isinstance(fun.fields[0], StrC) and fun.fields[0].s == "range"
            if not isinstance(args, Seq) or len(args.parts) != 3 or any(x[0] != "item" for x in args.parts):
                claims.append(z3.Not(conj(p.cond)))
                continue
            A, B, S = (ev_int(x[1]) for x in args.parts)
            sem = []
            step_eff = z3.If(has_step, s, z3.IntVal(1))
            for k in range(18):
                doc_in = z3.If(incl, a + k * step_eff <= b, a + k * step_eff < b)       # documented element k exists
                py_in = z3.And(S > 0, A + k * S < B)
                sem.append(z3.And(doc_in == py_in, z3.Implies(py_in, A + k * S == a + k * step_eff)))
            claims.append(z3.Implies(conj(p.cond), z3.And(z3.BoolVal(bool(isrange)), *sem)))
        e2.prove(run, obR, exR, hyp, conj(claims), {"a": a, "b": b, "s": s, "inclusive": incl, "step.is_some": has_step},
                 fam_replay(range_family, rp, "range"))
    except Unsupported as e:
        obR.inconclusive(str(e))

    ob_tail_distribution(run, mir, rp)

    ob_structure(run, mir, rp)
    ob_assign_ops(run, mir, rp)
    ob_parser_table(run, mir, rp)
    # expressions interpolated into strings are expressions: they must come out with their Mamba meaning (`{a ^ 2}` is a power)
    from props import C02
    C02.ob_interpolation(run, mir, rp, "meaning")
    # grouping is meaning: the printer's parenthesisation decision (the C10 obligations) is part of this property too
    try:
        from props import C10
        C10.run(run)
    except Unsupported as e:
        run.ob("operands-delimited-encoding", "E3+E2", "printer kernels encodable").inconclusive(str(e))

    if run.clean():
        n1, b1 = operator_family(rp)
        n2, b2 = range_family(rp)
        n3, b3 = ret_family(rp)
        n4, b4 = structure_family(rp)
        n5, b5 = assign_family(rp)
        n6, b6 = precedence_family(rp)
        b2 = b2 + b3 + b4 + b5 + b6
        run.validated += n1 + n2 + n3 + n4 + n5 + n6
        if b1 or b2:
            run.ob("family-operators", "native", "replay programs behave as documented").inconclusive(str((b1 + b2)[:2])[:600])
    rp.close()
