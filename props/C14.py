"""C14 — layout trivia never changes the token stream (beyond runs of NL): E2 summaries + z3."""
import re
import z3

import common
import e2
import lexkern
from e2 import result_kind, conj, disj
from lexkern import MAXN, SymState, run_state_token, summarize_token_paths
from mirsym import Exec, State, Opq, Agg, Ref, Seq, Val, Unsupported
from props import C18

LEVEL = "model_checking"
EXPLANATION = ("The State methods are executed symbolically from MIR; z3 decides the non-interference lemmas that make "
               "blank lines, trailing spaces, same-indent comment lines and a final newline invisible in the token "
               "stream: layout emission does not depend on line number, pending-newline count or token kind; a newline "
               "resets (line_indent, token_this_line, column); spaces after a token only move the column; equal "
               "indentation emits no layout; flush depends on cur_indent only; the parser's filter drops exactly Comment tokens.")

BASE = [
    "def f(x: Int) -> Int =>\n    def y := x + 1\n    y\nprint(f(2))",
    "if True then\n    print(1)\nelse\n    print(2)\nprint(3)",
    "class A\n    def a: Int := 1\n    def g(self) -> Int => self.a\ndef z := A()",
    "for i in 0 .. 3 do\n    if i = 1 then\n        print(i)\n    print(0)\nprint(9)",
]


def trivia_variants(src):
    lines = src.split("\n")
    out = []
    for i in range(len(lines) + 1):
        ind = ""
        if i < len(lines):
            ind = re.match(r"^ *", lines[i]).group(0)
        out.append(("blank-line", "\n".join(lines[:i] + [""] + lines[i:])))
        out.append(("spaces-only-line", "\n".join(lines[:i] + ["      "] + lines[i:])))
        if i < len(lines):
            out.append(("comment-line-same-indent", "\n".join(lines[:i] + [ind + "# note"] + lines[i:])))
            out.append(("trailing-comment", "\n".join(lines[:i] + [lines[i] + "  # note"] + lines[i + 1:])))
            out.append(("trailing-spaces", "\n".join(lines[:i] + [lines[i] + "   "] + lines[i + 1:])))
    out.append(("final-newline", src + "\n"))
    out.append(("crlf", src.replace("\n", "\r\n")))
    return out


def norm_tokens(toks):
    """Non-layout tokens with, between them, the layout gap (#Indent, #Dedent, any NL); Comment
    tokens dropped; the gaps before the first and after the last token ignore NL."""
    out, gap = [], [0, 0, False]
    for t in toks:
        k = t["tok"]
        if k.startswith("Comment("):
            continue
        if k == "NL":
            gap[2] = True
        elif k == "Indent":
            gap[0] += 1
        elif k == "Dedent":
            gap[1] += 1
        else:
            if not out:
                gap[2] = False
            if k == "Eof":
                gap[2] = False
            out.append(tuple(gap))
            out.append(k)
            gap = [0, 0, False]
    return out


def trivia_family(rp):
    """Token-stream level (what the lemmas claim): the stream of a trivia variant equals the
    original after dropping Comment tokens and collapsing runs of NL."""
    bad, n = [], 0
    for src in BASE:
        st0, t0 = rp.tokens(src)
        for role, v in trivia_variants(src):
            n += 1
            st1, t1 = rp.tokens(v)
            if st0 != st1:
                bad.append({"role": role, "src": v, "why": f"lexer verdict changed: {st0}->{st1}"})
            elif st0 == "OK":
                a, b = norm_tokens(t0), norm_tokens(t1)
                if a != b:
                    bad.append({"role": role, "src": v, "why": f"token stream changed: {a} -> {b}"})
    return n, bad


def comment_family(rp):
    """Pipeline level, for the parser's comment filter: adding whole-line comments (same indentation
    as the following statement, not directly before `else`) and trailing comments keeps verdict and output."""
    bad, n = [], 0
    for src in BASE:
        s0, o0 = rp.transpile(src)
        lines = src.split("\n")
        for i, l in enumerate(lines):
            if l.strip().startswith("else"):
                continue
            ind = re.match(r"^ *", l).group(0)
            variants = [("comment-line-same-indent", lines[:i] + [ind + "# note"] + lines[i:]),
                        ("trailing-comment", lines[:i] + [l + "  # note"] + lines[i + 1:])]
            nxt = lines[i + 1] if i + 1 < len(lines) else ""
            if len(re.match(r"^ *", nxt).group(0)) > len(ind) and not l.strip().startswith("#"):
                # a block header: comment line(s) between the header and its body, indented like the header
                variants.append(("comment-after-block-header", lines[:i + 1] + [ind + "# note"] + lines[i + 1:]))
                variants.append(("comment-after-block-header", lines[:i + 1] + [ind + "# note", ind + "# more"] + lines[i + 1:]))
            for role, v in variants:
                n += 1
                s1, o1 = rp.transpile("\n".join(v))
                if (s0, o0 if s0 == "OK" else "") != (s1, o1 if s1 == "OK" else ""):
                    bad.append({"role": role, "src": "\n".join(v), "why": f"verdict/output changed: {s0}->{s1} {o1[:80] if s1 != 'OK' else ''}"})
    return n, bad


def crlf_family(rp):
    """Pipeline level: switching LF to CRLF keeps verdict and output."""
    bad, n = [], 0
    for src in BASE + ["def a := 3\ndef x: Int := match a\n    1 => 10\n    _ => 20\nprint(x)"]:
        n += 1
        s0, o0 = rp.transpile(src)
        s1, o1 = rp.transpile(src.replace("\n", "\r\n"))
        if (s0, o0 if s0 == "OK" else "") != (s1, o1 if s1 == "OK" else ""):
            bad.append({"role": "crlf", "src": src.replace("\n", "\r\n"), "why": f"verdict/output changed: {s0}->{s1} {o1[:80] if s1 != 'OK' else ''}"})
    return n, bad


def replay_crlf(rp, what):
    def f(model):
        n, bad = crlf_family(rp)
        if bad:
            return {"reproduced": True, "role": f"{what}:crlf", "detail": f"{bad[0]['why']} for {bad[0]['src']!r}"}
        return replay_family(rp, what, {"crlf"})(model)
    return f


def replay_comments(rp, what):
    def f(model):
        n, bad = comment_family(rp)
        if bad:
            return {"reproduced": True, "role": f"{what}:{bad[0]['role']}", "detail": f"{bad[0]['why']} for {bad[0]['src']!r}"}
        return {"reproduced": False, "detail": f"{n} commented variants keep verdict and output"}
    return f


def replay_family(rp, what, roles=None):
    def f(model):
        n, bad = trivia_family(rp)
        if roles:
            bad = [b for b in bad if b["role"] in roles] or bad
        if bad:
            return {"reproduced": True, "role": f"{what}:{bad[0]['role']}", "detail": f"{bad[0]['why']} for {bad[0]['src']!r}",
                    "roles": sorted({b['role'] for b in bad})}
        return {"reproduced": False, "detail": f"{n} trivia variants leave verdict and output unchanged"}
    return f


def run(run):
    mir = e2.load_mir(run)
    rp = common.Replay()
    run.assume(f"indentation, caret <= 2^20; 0..2 pending newlines", "Vec sequence model; Token::width uninterpreted",
               "token-stream level only: that the parser is insensitive to the number of consecutive NL tokens is outside the claim",
               "comments indented differently from their neighbour are excluded by the property")
    run.trusted += ["rustc nightly MIR dump", "mirsym MIR semantics", "z3"]
    run.bounds = {"state": f"<= {MAXN}", "pending_newlines": "0..2"}
    nl_idx = None
    try:
        runs = {k: run_state_token(run, mir, k, tag="s") for k in (0, 1, 2)}
    except Unsupported as e:
        run.ob("state-encoding", "E2", "State::token encodable").inconclusive(str(e))
        rp.close()
        return
    sums = {}
    for k, (ex, st, S, tok, ends) in runs.items():
        sums[k] = summarize_token_paths(ex, st, S, ends, tok)
    ex, st, S, tok, ends = runs[0]
    d = ex.discr(st, tok, "Token")
    nl_idx = ex.discr_of_variant("Token", "NL")
    width = ex.uf("width", Val, z3.BitVecSort(64))(ex.to_val(st, tok))

    def layout_fn(k):
        """(n_indent, n_dedent, extra_nl, cur', li', ttl', dcol) of run k as z3 terms over S's variables."""
        exk, stk, Sk, tokk, _e = runs[k]
        sub = [(Sk.cur, S.cur), (Sk.li, S.li), (Sk.ttl, S.ttl), (Sk.line, S.line), (Sk.col, S.col)]
        ni = nd = z3.BitVecVal(0, 64)
        xnl = z3.IntVal(0)
        cur2, li2, ttl2, col2 = S.cur, S.li, S.ttl, S.col
        for s in sums[k]:
            c = s["cond"]
            ni = z3.If(c, s["n_indent"], ni)
            nd = z3.If(c, s["n_dedent"], nd)
            xnl = z3.If(c, z3.IntVal(s["n_nl_extra"]), xnl)
            a = s["after"]
            cur2 = z3.If(c, a["cur_indent"], cur2)
            li2 = z3.If(c, a["line_indent"], li2)
            ttl2 = z3.If(c, a["token_this_line"], ttl2)
            col2 = z3.If(c, a["pos"].fields[1], col2)
        return [z3.substitute(x, *sub) if k else x for x in (ni, nd, xnl, cur2, li2, ttl2, col2 - S.col)]

    base = [d != nl_idx, S.inv()]
    names = C18.names_of(S, {"token.discriminant": d})
    L0 = layout_fn(0)

    ob = run.ob("layout-independent-of-pending", "E2", "layout emission and the state after a token do not depend on "
                "how many newlines are pending (0, 1 or 2): blank lines are invisible to Indent/Dedent", ["State::token"])
    try:
        cl = []
        for k in (1, 2):
            Lk = layout_fn(k)
            # runs share the token symbol name and the width function
            cl += [a == b for a, b in zip(L0, Lk)]
        e2.prove(run, ob, ex, base, conj(cl), names, replay_family(rp, "pending", {"blank-line", "spaces-only-line"}))
    except Unsupported as e:
        ob.inconclusive(str(e))

    ob = run.ob("layout-independent-of-line-and-token", "E2", "layout emission, cur_indent', line_indent', "
                "token_this_line' and the column advance do not depend on the line number, and (except the width) "
                "not on the token kind — a comment behaves like any other token", ["State::token"])
    line2 = z3.BitVec("s.pos.line'", 64)
    L0b = [z3.substitute(x, (S.line, line2)) for x in L0]
    tok2 = z3.Const("tok'", Val)
    L0c = [z3.substitute(x, (tok.term, tok2)) for x in L0[:6]]
    d2 = z3.substitute(d, (tok.term, tok2))
    nvar = len(ex.enum_variants("Token"))
    w2 = z3.substitute(width, (tok.term, tok2))
    hyp = base + [z3.UGE(line2, 1), z3.ULE(line2, MAXN), d2 != nl_idx, d2 >= 0, d2 < nvar, z3.ULE(w2, MAXN)]
    for var in ("Str", "DocStr"):
        pl = ex.to_val(st, ex.project(st, ex.project(st, tok, ("v", var)), ("f", 0), "std::string::String"))
        hyp.append(z3.ULE(z3.substitute(lexkern.nl_of(ex, pl), (tok.term, tok2)), MAXN))
    e2.prove(run, ob, ex, hyp, conj([a == b for a, b in zip(L0, L0b)] + [a == b for a, b in zip(L0[:6], L0c)]),
             names, replay_family(rp, "line-token", {"comment-line-same-indent", "trailing-comment"}))

    ob = run.ob("same-indent-no-layout", "E2", "a token whose line indentation equals the current indentation "
                "emits no Indent, Dedent or extra NL (a comment line indented like the next statement absorbs the layout)", ["State::token"])
    e2.prove(run, ob, ex, base + [S.li == S.cur], z3.And(L0[0] == 0, L0[1] == 0, L0[2] == 0, L0[3] == S.cur), names,
             replay_family(rp, "same-indent", {"comment-line-same-indent"}))

    # newline resets, independent of previous li / ttl / col
    ob = run.ob("newline-resets", "E2", "after a newline (line_indent, token_this_line, column) = (1, false, 1) whatever "
                "they were (trailing spaces / spaces-only lines leave no trace); cur_indent is kept", ["State::newline"])
    try:
        exn, stn, Sn, _t, endsn = run_state_token(run, mir, 1, token=Agg("Token", "NL", []))
        cl = [z3.Not(disj([conj(p.cond) for p in endsn if p.kind == "panic"])),
              disj([conj(p.cond) for p in endsn if p.kind == "return"])]
        for p in endsn:
            if p.kind == "return":
                a = Sn.after(p)
                cl.append(z3.Implies(conj(p.cond), z3.And(a["line_indent"] == 1, z3.Not(a["token_this_line"]),
                                                          a["pos"].fields[1] == 1, a["cur_indent"] == Sn.cur,
                                                          z3.BoolVal(isinstance(p.ret, Seq) and not p.ret.parts))))
        e2.prove(run, ob, exn, [Sn.inv()], conj(cl), C18.names_of(Sn),
                 replay_family(rp, "newline", {"trailing-spaces", "spaces-only-line", "blank-line"}))
    except Unsupported as e:
        ob.inconclusive(str(e))

    ob = run.ob("space-effect", "E2", "a space moves the caret one column; it counts as indentation only before the "
                "first token of the line; nothing else changes", ["State::space"])
    try:
        fn = e2.find1(mir, file=lexkern.STATE_RS, impl="impl State", name="space")
        exs = Exec(mir, inline=lexkern.STATE_INLINE, models=lexkern.LEX_MODELS)
        sts = State()
        Ss = SymState(exs, sts, 2)
        endss = e2.run_kernel(run, exs, fn, [Ss.ref], sts)
        cl = [z3.Not(disj([conj(p.cond) for p in endss if p.kind == "panic"])),
              disj([conj(p.cond) for p in endss if p.kind == "return"])]
        for p in endss:
            if p.kind == "return":
                a = Ss.after(p)
                nl = a["newlines"]
                cl.append(z3.Implies(conj(p.cond), z3.And(
                    a["cur_indent"] == Ss.cur, a["token_this_line"] == Ss.ttl, a["pos"].fields[0] == Ss.line,
                    a["pos"].fields[1] == Ss.col + 1,
                    a["line_indent"] == z3.If(Ss.ttl, Ss.li, Ss.li + 1),
                    z3.BoolVal(isinstance(nl, Seq) and [x[1] for x in nl.parts] == Ss.pending))))
        e2.prove(run, ob, exs, [Ss.inv()], conj(cl), C18.names_of(Ss),
                 replay_family(rp, "space", {"trailing-spaces", "spaces-only-line"}))
    except Unsupported as e:
        ob.inconclusive(str(e))

    ob = run.ob("flush-depends-on-cur-only", "E2", "the dedents emitted at end of input depend on cur_indent only "
                "(a final newline or trailing blank lines do not change them)", ["State::flush_indents"])
    try:
        fn = e2.find1(mir, file=lexkern.STATE_RS, impl="impl State", name="flush_indents")
        exf = Exec(mir, inline=lexkern.STATE_INLINE, models=lexkern.LEX_MODELS)
        stf = State()
        Sf = SymState(exf, stf, 2)
        endsf = e2.run_kernel(run, exf, fn, [Sf.ref], stf)
        n = z3.BitVecVal(0, 64)
        ok = []
        for p in endsf:
            if p.kind == "return":
                good = isinstance(p.ret, Seq) and len(p.ret.parts) == 1 and p.ret.parts[0][0] == "rep"
                ok.append(z3.Implies(conj(p.cond), z3.BoolVal(bool(good))))
                if good:
                    n = z3.If(conj(p.cond), p.ret.parts[0][2], n)
        others = [(Sf.li, z3.BitVec("li'", 32)), (Sf.ttl, z3.Bool("ttl'")), (Sf.line, z3.BitVec("line'", 64)),
                  (Sf.col, z3.BitVec("col'", 64))]
        n2 = z3.substitute(n, *others)
        e2.prove(run, ob, exf, [Sf.inv(), z3.substitute(Sf.inv(), *others)], conj(ok + [n == n2, z3.Not(disj([conj(p.cond) for p in endsf if p.kind == "panic"]))]),
                 C18.names_of(Sf), replay_family(rp, "flush", {"final-newline", "blank-line"}))
    except Unsupported as e:
        ob.inconclusive(str(e))

    ob = run.ob("comment-filter", "E2", "the parser's token filter drops exactly the Comment tokens", ["AST::from_str::{closure#0}::{closure#0}"])
    try:
        cands = [f for f in mir.find(file="src/parse/mod.rs", impl="impl FromStr for AST", name="from_str",
                                     closure=["{closure#0}", "{closure#0}"])]
        if len(cands) != 1:
            raise Unsupported(f"filter closure lookup matched {len(cands)}")
        exc = Exec(mir)
        stc = State()
        tokc = Opq(z3.Const("tok", Val), "Token")
        lex = Agg("Lex", None, [Opq(z3.Const("p", Val), "Position"), tokc])
        endsc = e2.run_kernel(run, exc, cands[0], [Ref(exc.new_cell(stc, Agg("closure", None, []))), Ref(exc.new_cell(stc, lex))], stc)
        dc = exc.discr(stc, tokc, "Token")
        cidx = exc.discr_of_variant("Token", "Comment")
        cl = [z3.Implies(conj(p.cond), p.ret == (dc != cidx)) if p.kind == "return" and z3.is_bool(p.ret) else z3.BoolVal(False)
              for p in endsc]
        e2.prove(run, ob, exc, [], conj(cl), {"token.discriminant": dc},
                 replay_comments(rp, "comment-filter"))
    except Unsupported as e:
        ob.inconclusive(str(e))

    ob = run.ob("block-skips-newline-runs", "E2", "parse_block (documented: consumes any newlines preceding the block): on every "
                "path the first thing done with the token iterator is eat_while(NL), and only then the Indent is required — a "
                "run of newlines (blank or comment lines between a header and its body) is invisible", ["parse_block"])
    try:
        fnb = e2.find1(mir, file="src/parse/block.rs", name="parse_block")
        exb = Exec(mir, max_paths=5000)
        stb = State()
        itb = Ref(exb.new_cell(stb, Opq(z3.Const("it", Val), "LexIterator")))
        endsb = e2.run_kernel(run, exb, fnb, [itb], stb)
        clb = []
        for p in endsb:
            evs = [e_ for e_ in p.events if e_["name"].startswith("LexIterator::") and e_["name"] != "LexIterator::start_pos"]
            if not evs:
                continue          # error before the iterator is touched
            first = evs[0]
            is_nl = False
            if first["name"] == "LexIterator::eat_while":
                a1 = first["args"][1]
                a1 = exb.read_ref(p.state, a1) if isinstance(a1, Ref) else a1
                is_nl = isinstance(a1, Agg) and a1.variant == "NL"
            clb.append(z3.Implies(conj(p.cond), z3.BoolVal(bool(is_nl))))
        if not clb:
            raise Unsupported("no path touches the iterator")
        e2.prove_each(run, ob, exb, [], clb, {}, replay_comments(rp, "block-newlines"))
    except Unsupported as e:
        ob.inconclusive(str(e))

    # ---- continuation keywords after a run of newlines: `else` of an if, the next case of a match
    def blank_replay(what, sites):
        base_if = "def f(x: Int) -> Int =>\n    if x > 1 then\n        1\n{gap}    else\n        2\nprint(f(2))\nprint(f(0))\n"
        base_top = "if True then\n    print(1)\n{gap}else\n    print(2)\n"
        base_match = "def g(x: Int) -> Int =>\n    match x\n        1 => 10\n{gap}        2 => 20\n{gap}        _ => 0\nprint(g(2))\n"
        base_match_head = "def g(x: Int) -> Int =>\n    match x\n{gap}        1 => 10\n        _ => 0\nprint(g(2))\n"
        base_handle = ("class E(m: Str): Exception(m)\nclass F(m: Str): Exception(m)\ndef f(x: Int) -> Int raise [E, F] => x\ndef g() -> Int =>\n    f(1) handle\n"
                       "{gap}        err: E => 0\n{gap}        err: F => 1\nprint(g())\n")
        base_cond = "type P: Int when\n{gap}    self > 0\n{gap}    self < 10\ndef p: Int := 3\nprint(p)\n"
        gaps = {"blank-line": "\n", "two-blank-lines": "\n\n", "whitespace-only-line": "        \n"}
        cgaps = {"comment-line": "{ind}# c\n"}

        def f(model):
            bad_blank, bad_comment = [], []
            for nm, base, ind in (("else-in-function", base_if, "    "), ("else-top-level", base_top, ""), ("match-case", base_match, "        "),
                                  ("match-header", base_match_head, "        "), ("handle-cases", base_handle, "        "), ("conditions", base_cond, "    ")):
                if nm not in sites:
                    continue
                st0, out0 = rp.transpile(base.format(gap=""))
                for gnm, gap in list(gaps.items()) + [(k, v.format(ind=ind)) for k, v in cgaps.items()]:
                    st1, out1 = rp.transpile(base.format(gap=gap))
                    same = st1 == st0 and (st0 != "OK" or [l for l in out1.split("\n") if l.strip() and not l.strip().startswith("#")] ==
                                           [l for l in out0.split("\n") if l.strip() and not l.strip().startswith("#")])
                    if not same:
                        (bad_comment if gnm in cgaps else bad_blank).append((f"{nm}:{gnm}", f"{base.format(gap=gap)!r}: {st1} {out1[:100]!r} (without the line: {st0})"))
            bad = bad_blank + bad_comment
            if bad:
                kind = "+".join(sorted({b[0].split(":")[1] for b in bad}))
                where = "+".join(sorted({b[0].split(":")[0] for b in bad}))
                return {"reproduced": True, "role": f"{what}:{where}:{kind}", "detail": bad[0][1], "failing": [b[0] for b in bad]}
            return {"reproduced": False, "detail": f"blank / comment lines at {sites} keep verdict and output"}
        return f

    ob = run.ob("else-after-newline-run", "E2", "parse_if: when the then-branch is followed by a run of newline tokens and `else` (peek_if_followed_by scans the "
                "whole run), the WHOLE run is consumed before `else` is required - one newline or five, the else-branch belongs to the if", ["parse_if"])
    try:
        fni = e2.find1(mir, file="src/parse/control_flow_expr.rs", name="parse_if")
        exi = Exec(mir, max_paths=5000)
        sti = State()
        iti = Ref(exi.new_cell(sti, Opq(z3.Const("it", Val), "LexIterator")))
        endsi = e2.run_kernel(run, exi, fni, [iti], sti)
        cli, ni = [], 0
        for p in endsi:
            evs = [e_ for e_ in p.events if e_["name"].startswith("LexIterator::")]
            fb = [e_ for e_ in evs if e_["name"] == "LexIterator::peek_if_followed_by"]
            if not fb or not z3.is_bool(fb[0]["ret"]):
                continue
            later = evs[evs.index(fb[0]) + 1:]
            taken = exi.is_sat(list(p.cond) + [fb[0]["ret"]]) if hasattr(exi, "is_sat") else (e2.solve(exi, list(p.cond) + [fb[0]["ret"]])[0] == z3.sat)
            not_taken = e2.solve(exi, list(p.cond) + [z3.Not(fb[0]["ret"])])[0] == z3.sat
            if not taken or not_taken or not later:
                continue
            ni += 1
            first = later[0]
            a1 = first["args"][1] if len(first["args"]) > 1 else None
            a1 = exi.read_ref(p.state, a1) if isinstance(a1, Ref) else a1
            ok = first["name"] == "LexIterator::eat_while" and isinstance(a1, Agg) and a1.variant == "NL"
            nxt = later[1] if len(later) > 1 else None
            ok = ok and nxt is not None and nxt["name"] == "LexIterator::parse_if"
            cli.append(z3.Implies(conj(p.cond), z3.BoolVal(bool(ok))))
        if not ni:
            raise Unsupported("no path takes the newline-then-else branch")
        e2.prove_each(run, ob, exi, [], cli, {}, blank_replay("else-after-newlines", ("else-in-function", "else-top-level")))
        if ob.status == "discharged":
            rep_ = blank_replay("else-after-newlines", ("else-in-function", "else-top-level"))({})
            run.validated += 1
            if rep_.get("reproduced"):
                ob.status = "pending"
                ob.inconclusive("placements of blank / comment lines still change the verdict although the kernel is as specified: " + str(rep_.get("failing"))[:300])
    except Unsupported as e:
        ob.inconclusive(str(e))

    ob = run.ob("match-cases-skip-newline-runs", "E2", "parse_match_cases, one iteration of the loop over the cases: after a case every newline token of a "
                "run is consumed (eat_while(NL)), so blank lines between two cases are invisible", ["parse_match_cases::{closure}"])
    try:
        clm = [f for n, f in mir.fns.items() if re.match(r"^(.*::)?parse_match_cases::\{closure#0\}$", n)]
        if len(clm) != 1:
            raise Unsupported(f"parse_match_cases closure: {len(clm)} candidates")
        exm = Exec(mir, max_paths=5000)
        stm = State()
        cases = Ref(exm.new_cell(stm, Seq()))
        startm = Ref(exm.new_cell(stm, Opq(z3.Const("start", Val), "Position")))
        envm = Ref(exm.new_cell(stm, Agg("closure", clm[0].args[0][1].lstrip("&").replace("mut ", "").strip(), [cases, startm])))
        itm = Ref(exm.new_cell(stm, Opq(z3.Const("it", Val), "LexIterator")))
        argsm = [envm, itm] + [Ref(exm.new_cell(stm, Opq(z3.Const(f"lex{i}", Val), "Lex"))) for i in range(len(clm[0].args) - 2)]
        endsm = e2.run_kernel(run, exm, clm[0], argsm, stm)
        clmm, nm_ = [], 0
        for p in endsm:
            if result_kind(p) != "Ok":
                continue
            nm_ += 1
            evs = [e_ for e_ in p.events if e_["name"].startswith("LexIterator::")]
            ok = len(evs) >= 2 and evs[0]["name"] == "LexIterator::parse" and evs[-1]["name"] == "LexIterator::eat_while"
            if ok:
                a1 = evs[-1]["args"][1]
                a1 = exm.read_ref(p.state, a1) if isinstance(a1, Ref) else a1
                ok = isinstance(a1, Agg) and a1.variant == "NL" and len(evs) == 2
            clmm.append(z3.Implies(conj(p.cond), z3.BoolVal(bool(ok))))
        if not nm_:
            raise Unsupported("no Ok path in the case loop body")
        # prologue of parse_match_cases (shared by match and handle): a run of newlines before the indented cases is skipped
        fnm = e2.find1(mir, file="src/parse/control_flow_expr.rs", name="parse_match_cases")
        stp = State()
        endsp = e2.run_kernel(run, exm, fnm, [Ref(exm.new_cell(stp, Opq(z3.Const("it", Val), "LexIterator")))], stp)
        npro = 0
        for p in endsp:
            evs = [e_ for e_ in p.events if e_["name"].startswith("LexIterator::") and e_["name"] != "LexIterator::start_pos"]
            if not evs:
                continue
            npro += 1
            # (the lexer hands a blank line after a header over as NL Indent NL: the run continues behind the Indent)
            tokarg = lambda e_: (exm.read_ref(p.state, e_["args"][1]) if isinstance(e_["args"][1], Ref) else e_["args"][1]) if len(e_["args"]) > 1 else None
            shape = [(e_["name"].split("::")[-1], getattr(tokarg(e_), "variant", None)) for e_ in evs[:3]]
            ok = shape[:2] == [("eat_while", "NL"), ("eat", "Indent")]
            if ok and result_kind(p) != "Err" or len(evs) > 2:
                ok = ok and shape[2:3] == [("eat_while", "NL")]
            clmm.append(z3.Implies(conj(p.cond), z3.BoolVal(bool(ok))))
        if not npro:
            raise Unsupported("parse_match_cases does not touch the iterator")
        e2.prove_each(run, ob, exm, [], clmm, {}, blank_replay("match-case-newlines", ("match-case", "match-header", "handle-cases")))
        if ob.status == "discharged":
            rep_ = blank_replay("match-case-newlines", ("match-case", "match-header", "handle-cases"))({})
            run.validated += 1
            if rep_.get("reproduced"):
                ob.status = "pending"
                ob.inconclusive("placements of blank / comment lines still change the verdict although the kernel is as specified: " + str(rep_.get("failing"))[:300])
    except Unsupported as e:
        ob.inconclusive(str(e))

    ob = run.ob("conditions-skip-newline-runs", "E2", "parse_conditions (the indented condition list of `type T: U when`): a run of newlines before the indented "
                "list and after every condition is consumed as a whole (eat_while(NL))", ["parse_conditions", "parse_conditions::{closure}"])
    try:
        fnc_ = e2.find1(mir, file="src/parse/ty.rs", name="parse_conditions")
        exc = Exec(mir, max_paths=5000)
        stc = State()
        endsc = e2.run_kernel(run, exc, fnc_, [Ref(exc.new_cell(stc, Opq(z3.Const("it", Val), "LexIterator")))], stc)
        clc, ncnd = [], 0
        for p in endsc:
            evs = [e_ for e_ in p.events if e_["name"].startswith("LexIterator::") and e_["name"] != "LexIterator::start_pos"]
            ind = [e_ for e_ in evs if e_["name"] == "LexIterator::eat"]
            if not ind:
                continue                 # single condition on the same line / error before the list
            ncnd += 1
            first = evs[0]
            a0 = first["args"][1] if len(first["args"]) > 1 else None
            a0 = exc.read_ref(p.state, a0) if isinstance(a0, Ref) else a0
            ok = first["name"] == "LexIterator::eat_while" and isinstance(a0, Agg) and a0.variant == "NL" and evs.index(ind[0]) == 1
            if ok and len(evs) > 2:
                a2 = evs[2]["args"][1] if len(evs[2]["args"]) > 1 else None
                a2 = exc.read_ref(p.state, a2) if isinstance(a2, Ref) else a2
                ok = evs[2]["name"] == "LexIterator::eat_while" and isinstance(a2, Agg) and a2.variant == "NL"
            clc.append(z3.Implies(conj(p.cond), z3.BoolVal(bool(ok))))
        clo = [f for n, f in mir.fns.items() if re.match(r"^(.*::)?parse_conditions::\{closure#0\}$", n)]
        if len(clo) != 1 or not ncnd:
            raise Unsupported(f"parse_conditions: {len(clo)} loop closures, {ncnd} list paths")
        stc2 = State()
        conds = Ref(exc.new_cell(stc2, Seq()))
        envc = Ref(exc.new_cell(stc2, Agg("closure", clo[0].args[0][1].lstrip("&").replace("mut ", "").strip(), [conds, Ref(exc.new_cell(stc2, Opq(z3.Const("start", Val), "Position")))])))
        argsc = [envc, Ref(exc.new_cell(stc2, Opq(z3.Const("it", Val), "LexIterator")))] + [Ref(exc.new_cell(stc2, Opq(z3.Const(f"lex{i}", Val), "Lex"))) for i in range(len(clo[0].args) - 2)]
        for p in e2.run_kernel(run, exc, clo[0], argsc, stc2):
            if result_kind(p) != "Ok":
                continue
            evs = [e_ for e_ in p.events if e_["name"].startswith("LexIterator::")]
            ok = len(evs) == 2 and evs[0]["name"] == "LexIterator::parse" and evs[1]["name"] == "LexIterator::eat_while"
            if ok:
                a1 = evs[1]["args"][1]
                a1 = exc.read_ref(p.state, a1) if isinstance(a1, Ref) else a1
                ok = isinstance(a1, Agg) and a1.variant == "NL"
            clc.append(z3.Implies(conj(p.cond), z3.BoolVal(bool(ok))))
        e2.prove_each(run, ob, exc, [], clc, {}, blank_replay("condition-newlines", ("conditions",)))
        if ob.status == "discharged":
            rep_ = blank_replay("condition-newlines", ("conditions",))({})
            run.validated += 1
            if rep_.get("reproduced"):
                ob.status = "pending"
                ob.inconclusive("placements of blank / comment lines still change the verdict although the kernel is as specified: " + str(rep_.get("failing"))[:300])
    except Unsupported as e:
        ob.inconclusive(str(e))

    # ---- statements whose own parser must leave the terminating newline / the end of the block to parse_statements
    def variants_replay(what, groups):
        """groups: {name: [variants of one program that differ in trivia only]} - all variants of a group must get the same verdict and output."""
        def f(model):
            bad = []
            for nm, variants in groups.items():
                res = []
                for v in variants:
                    st_, out = rp.transpile(v)
                    res.append((st_, [l.rstrip() for l in out.split("\n") if l.strip() and not l.strip().startswith("#")] if st_ == "OK" else None))
                if any(r != res[0] for r in res[1:]):
                    i = next(i for i, r in enumerate(res) if r != res[0])
                    bad.append((nm, f"{variants[0]!r} -> {res[0][0]} but {variants[i]!r} -> {res[i][0]}"))
            if bad:
                return {"reproduced": True, "role": f"{what}:" + "+".join(b[0] for b in bad), "detail": bad[0][1]}
            return {"reproduced": False, "detail": f"{sum(len(v) for v in groups.values())} variants in {len(groups)} groups agree"}
        return f

    def tokarg_of(exx, p, e_, i=1):
        a = e_["args"][i] if len(e_["args"]) > i else None
        return exx.read_ref(p.state, a) if isinstance(a, Ref) else a

    ob = run.ob("return-leaves-newline", "E2", "parse_return: an empty `return` is recognised by LOOKING at the next token (newline, dedent, end of input) - the newline "
                "that ends the statement is not consumed, so the statement after `return` needs no blank line in between", ["parse_return"])
    try:
        fnr = e2.find1(mir, file="src/parse/statement.rs", name="parse_return")
        exr = Exec(mir, max_paths=5000)
        str_ = State()
        endsr = e2.run_kernel(run, exr, fnr, [Ref(exr.new_cell(str_, Opq(z3.Const("it", Val), "LexIterator")))], str_)
        clr, nr = [], 0
        for p in endsr:
            if result_kind(p) != "Ok":
                continue
            node_empty = "ReturnEmpty" in str(exr.to_val(p.state, p.ret))
            if not node_empty:
                continue
            nr += 1
            eats = [e_ for e_ in p.events if e_["name"] in ("LexIterator::eat", "LexIterator::eat_if", "LexIterator::eat_while") and
                    getattr(tokarg_of(exr, p, e_), "variant", None) == "NL"]
            clr.append(z3.Implies(conj(p.cond), z3.BoolVal(not eats)))
        if not nr:
            raise Unsupported("no path builds ReturnEmpty")
        rr = variants_replay("return-newline", {
            "return-then-statement": ["def f(x: Int) =>\n    return\n\n    print(x)\nf(1)\n", "def f(x: Int) =>\n    return\n    print(x)\nf(1)\n"],
            "return-in-branch-then-statement": ["def f(x: Int) =>\n    if x > 0 then\n        return\n\n    print(x)\nf(0)\n", "def f(x: Int) =>\n    if x > 0 then\n        return\n    print(x)\nf(0)\n"],
            "return-last": ["def f(x: Int) =>\n    print(x)\n    return\nf(1)\n", "def f(x: Int) =>\n    print(x)\n    return\n\nf(1)\n", "def f(x: Int) =>\n    print(x)\n    return\nf(1)"]})
        e2.prove_each(run, ob, exr, [], clr, {}, rr)
        if ob.status == "discharged":
            r_ = rr({})
            run.validated += 7
            if r_["reproduced"]:
                ob.status = "pending"
                ob.inconclusive("variants still disagree although the kernel is as specified: " + r_["detail"][:300])
    except Unsupported as e:
        ob.inconclusive(str(e))

    ob = run.ob("import-stops-at-block-end", "E2", "parse_import: the loops over the imported names and over the aliases stop at a newline AND at the end of the enclosing "
                "block or of the input (Dedent, Eof) - an import as the last statement of an indented block needs no further line behind it", ["parse_import"])
    try:
        fni_ = e2.find1(mir, file="src/parse/statement.rs", name="parse_import")
        exi_ = Exec(mir, max_paths=5000)
        sti_ = State()
        endsi_ = e2.run_kernel(run, exi_, fni_, [Ref(exi_.new_cell(sti_, Opq(z3.Const("it", Val), "LexIterator")))], sti_)
        cli_, ni_ = [], 0
        for p in endsi_:
            for e_ in p.events:
                if e_["name"] not in ("LexIterator::peek_while_not_tokens", "LexIterator::peek_while_not_token"):
                    continue
                ni_ += 1
                a = tokarg_of(exi_, p, e_)
                toks = set()
                if isinstance(a, Agg) and a.variant:
                    toks = {a.variant}
                elif isinstance(a, (Seq, Agg)):
                    items = [x[1] for x in a.parts if x[0] == "item"] if isinstance(a, Seq) else list(a.fields)
                    toks = {getattr(exi_.read_ref(p.state, x) if isinstance(x, Ref) else x, "variant", "?") for x in items}
                cli_.append(z3.Implies(conj(p.cond), z3.BoolVal({"NL", "Dedent", "Eof"} <= toks)))
        if ni_ < 2:
            raise Unsupported(f"{ni_} name loops found in parse_import")
        ri = variants_replay("import-block-end", {
            "import-last-in-block": ["def f() =>\n    import math\n    print(1)\n", "def f() =>\n    import math\n# c\n", "def f() =>\n    import math\n", "def f() =>\n    import math"],
            "import-as-last-in-block": ["def f() =>\n    import math as m\n# c\n", "def f() =>\n    import math as m\n", "def f() =>\n    import math as m"],
            "import-top-level": ["import math\n", "import math", "import math\n\n"]})
        # the first group's first variant has one more statement: compare verdicts only
        def ri_verdicts(model):
            bad = []
            for nm, vs in (("import-last-in-block", ["def f() =>\n    import math\n# c\n", "def f() =>\n    import math\n", "def f() =>\n    import math"]),
                           ("import-as-last-in-block", ["def f() =>\n    import math as m\n# c\n", "def f() =>\n    import math as m\n", "def f() =>\n    import math as m"]),
                           ("import-top-level", ["import math\n", "import math", "import math\n\n"])):
                vs_ = [rp.transpile(v)[0] for v in vs]
                if len(set(vs_)) > 1:
                    bad.append((nm, f"{vs!r} -> {vs_}"))
            if bad:
                return {"reproduced": True, "role": "import-block-end:" + "+".join(b[0] for b in bad), "detail": bad[0][1]}
            return {"reproduced": False, "detail": "9 variants in 3 groups get the same verdict"}
        e2.prove_each(run, ob, exi_, [], cli_, {}, ri_verdicts)
        if ob.status == "discharged":
            r_ = ri_verdicts({})
            run.validated += 9
            if r_["reproduced"]:
                ob.status = "pending"
                ob.inconclusive("variants still disagree although the kernel is as specified: " + r_["detail"][:300])
    except Unsupported as e:
        ob.inconclusive(str(e))

    ob = run.ob("block-position-anchored", "E2", "parse_block: the position the block starts at is taken BEFORE the Indent token is consumed (the Indent carries the "
                "position of the first statement's line; what follows it may be the pending newlines of blank lines), and parse_class / parse_type_def decide "
                "that a body follows by looking ahead over the whole run of newlines to the Indent (peek_if_followed_by) before parse_block is called",
                ["parse_block", "parse_class", "parse_type_def"])
    try:
        clp = []
        fnb2 = e2.find1(mir, file="src/parse/block.rs", name="parse_block")
        exb2 = Exec(mir, max_paths=5000)
        stb2 = State()
        for p in e2.run_kernel(run, exb2, fnb2, [Ref(exb2.new_cell(stb2, Opq(z3.Const("it", Val), "LexIterator")))], stb2):
            evs = [e_ for e_ in p.events if e_["name"].startswith("LexIterator::")]
            ind = [i for i, e_ in enumerate(evs) if e_["name"] == "LexIterator::eat" and getattr(tokarg_of(exb2, p, e_), "variant", None) == "Indent"]
            sp = [i for i, e_ in enumerate(evs) if e_["name"] == "LexIterator::start_pos"]
            if not ind:
                continue
            clp.append(z3.Implies(conj(p.cond), z3.BoolVal(bool(sp) and sp[0] < ind[0])))
        nb = len(clp)
        for fname in ("parse_class", "parse_type_def"):
            fnc2 = e2.find1(mir, file="src/parse/class.rs", name=fname)
            stc3 = State()
            for p in e2.run_kernel(run, exb2, fnc2, [Ref(exb2.new_cell(stc3, Opq(z3.Const("it", Val), "LexIterator")))], stc3):
                evs = [e_ for e_ in p.events if e_["name"].startswith("LexIterator::")]
                def fn_name(v):
                    v = exb2.read_ref(p.state, v) if isinstance(v, Ref) else v
                    from mirsym import FnItem
                    if isinstance(v, FnItem):
                        return v.text.split("::")[-1]
                    if isinstance(v, Agg) and not v.fields:
                        return str(v.ty or v.variant).split("::")[-1]
                    return str(v)[:60]
                blocks = [i for i, e_ in enumerate(evs) if e_["name"] == "LexIterator::parse" and "parse_block" in fn_name(e_["args"][1])]
                if not blocks:
                    continue
                look = [i for i, e_ in enumerate(evs[:blocks[0]]) if e_["name"] == "LexIterator::peek_if_followed_by" and
                        getattr(tokarg_of(exb2, p, e_, 1), "variant", None) == "NL" and getattr(tokarg_of(exb2, p, e_, 2), "variant", None) == "Indent"]
                ok = bool(look) and z3.is_bool(evs[look[-1]]["ret"]) and e2.solve(exb2, list(p.cond) + [z3.Not(evs[look[-1]]["ret"])])[0] == z3.unsat
                clp.append(z3.Implies(conj(p.cond), z3.BoolVal(bool(ok))))
        if not nb or len(clp) == nb:
            raise Unsupported(f"{nb} block paths, {len(clp) - nb} class / type paths with a body")
        rb = variants_replay("block-position", {
            "inline-if-body-after-blank-line": ["def f(x: Int) -> Int =>\n    if x > 0 then 1 else 2\nprint(f(1))\n", "def f(x: Int) -> Int =>\n\n    if x > 0 then 1 else 2\nprint(f(1))\n",
                                                "def f(x: Int) -> Int =>\n    \n    if x > 0 then 1 else 2\nprint(f(1))\n"],
            "method-inline-if-body-after-blank-line": ["class A\n    def m(self, x: Int) -> Int =>\n        if x > 0 then 1 else 2\n", "class A\n    def m(self, x: Int) -> Int =>\n\n        if x > 0 then 1 else 2\n"],
            "class-body-after-comment": ["class A\n    def a: Int := 1\ndef z := A()\n", "class A\n# note\n    def a: Int := 1\ndef z := A()\n", "class A\n\n    def a: Int := 1\ndef z := A()\n"],
            "type-body-after-comment": ["type T\n    def f(x: Int) -> Int\n", "type T\n# note\n    def f(x: Int) -> Int\n"]})
        e2.prove_each(run, ob, exb2, [], clp, {}, rb)
        if ob.status == "discharged":
            r_ = rb({})
            run.validated += 10
            if r_["reproduced"]:
                ob.status = "pending"
                ob.inconclusive("variants still disagree although the kernels are as specified: " + r_["detail"][:300])
    except Unsupported as e:
        ob.inconclusive(str(e))

    ob = run.ob("statements-skip-newline-runs", "E2", "parse_statements (file level and inside blocks): a newline token between statements is "
                "eaten and nothing else happens (no statement is recorded, no error) - so any number of blank or comment lines between two "
                "statements is invisible; a statement must be followed by a newline, a dedent or the end of input", ["parse_statements::{closure}"])
    try:
        cls = [f for n, f in mir.fns.items() if re.match(r"^(.*::)?parse_statements::\{closure#0\}$", n) and len(f.args) == 3]
        if len(cls) != 1:
            raise Unsupported(f"parse_statements closure: {len(cls)} candidates")
        exs = Exec(mir, max_paths=20000)
        sts = State()
        stmts = Ref(exs.new_cell(sts, Seq()))
        start = Ref(exs.new_cell(sts, Opq(z3.Const("start", Val), "Position")))
        env = Ref(exs.new_cell(sts, Agg("closure", cls[0].args[0][1].lstrip("&").replace("mut ", "").strip(), [stmts, start])))
        its = Ref(exs.new_cell(sts, Opq(z3.Const("it", Val), "LexIterator")))
        lexf = e2.rust_struct("src/parse/lex/token.rs", "Lex")
        lexv = e2.mk_struct("src/parse/lex/token.rs", "Lex", {"pos": Opq(z3.Const("lex.pos", Val), "Position"), "token": Agg("Token", "NL", [])})
        endss = e2.run_kernel(run, exs, cls[0], [env, its, Ref(exs.new_cell(sts, lexv))], sts)
        cls_ = []
        for p in endss:
            if p.kind != "return":
                raise Unsupported(f"unexpected path end {p}")
            evs = [e_ for e_ in p.events if e_["name"].startswith("LexIterator::")]
            ok = len(evs) == 1 and evs[0]["name"] == "LexIterator::eat"
            if ok:
                a1 = evs[0]["args"][1]
                a1 = exs.read_ref(p.state, a1) if isinstance(a1, Ref) else a1
                ok = isinstance(a1, Agg) and a1.variant == "NL"
            after = exs.read_ref(p.state, stmts)
            ok = ok and isinstance(after, Seq) and not after.parts
            # the result is Ok exactly when eating the newline worked
            if ok:
                # the result is the eat result itself, mapped to () (Result::map keeps Ok / Err)
                rv = exs.to_val(p.state, p.ret)
                ev_ = exs.to_val(p.state, evs[0]["ret"])
                same = z3.eq(rv, ev_)
                if not same and z3.is_app(rv) and rv.decl().name().startswith("call:Result::map") and z3.eq(rv.children()[0], ev_):
                    # mapped to (): the mapping closure must not capture (and so cannot touch) the statements collected so far
                    mp = [e_ for e_ in p.events if e_["name"].endswith("Result::map")]
                    clo = mp[-1]["args"][1] if mp else None
                    same = clo is not None and not (isinstance(clo, Agg) and clo.fields)
                cls_.append(z3.Implies(conj(p.cond), z3.BoolVal(bool(same))))
            else:
                cls_.append(z3.Implies(conj(p.cond), z3.BoolVal(False)))
        if not cls_:
            raise Unsupported("no return path")
        def replay_stmts(model):
            r = replay_comments(rp, "statement-newlines")(model)
            if r.get("reproduced"):
                return r
            stt, out = rp.transpile("def x := 1\n\n\ndef y := 2\nprint(x + y)")
            if stt != "OK" or "x = 1" not in out or "y = 2" not in out:
                return {"reproduced": True, "role": "statement-newlines:statements-lost", "detail": f"statements separated by blank lines: {stt} {out[:120]!r}"}
            return r
        e2.prove_each(run, ob, exs, [], cls_, {}, replay_stmts)
    except Unsupported as e:
        ob.inconclusive(str(e))

    ob = run.ob("parenthesised-expression-is-the-expression", "E2", "parse_tuple: `(` expressions `)` with exactly one expression yields that "
                "expression itself (index 0 of what was parsed, nothing wrapped around it); any other number yields a Tuple of all of them; the "
                "brackets are required on both sides", ["parse_tuple"])
    try:
        fnt = e2.find1(mir, file="src/parse/collection.rs", name="parse_tuple")
        ext = Exec(mir, max_paths=2000)
        stt = State()
        itt = Ref(ext.new_cell(stt, Opq(z3.Const("it", Val), "LexIterator")))
        endst = e2.run_kernel(run, ext, fnt, [itt], stt)
        clt, n_ok = [], 0
        for p in endst:
            if p.kind != "return":
                raise Unsupported(f"unexpected path end {p}")
            if not (isinstance(p.ret, Agg) and p.ret.variant == "Ok"):
                continue
            n_ok += 1
            s_ = p.state
            eats = [e_ for e_ in p.events if e_["name"].endswith("LexIterator::eat")]
            pv = [e_ for e_ in p.events if e_["name"].endswith("LexIterator::parse_vec")]
            toks = []
            for e_ in eats:
                tv = ext.read_ref(s_, e_["args"][1]) if isinstance(e_["args"][1], Ref) else e_["args"][1]
                toks.append(tv.variant if isinstance(tv, Agg) else "?")
            ok = toks == ["LRBrack", "RRBrack"] and len(pv) == 1
            if not ok:
                clt.append(z3.Implies(conj(p.cond), z3.BoolVal(False)))
                continue
            elems = ext.project(s_, ext.project(s_, pv[0]["ret"], ("v", "Ok")), ("f", 0), "Vec<AST>")
            ln = ext.uf("seq:len", Val, z3.BitVecSort(64))(ext.to_val(s_, elems))
            rv = z3.simplify(ext.to_val(s_, p.ret.fields[0]))
            idx = [e_ for e_ in p.events if e_["name"].endswith("Index::index")]
            news = [e_ for e_ in p.events if e_["name"].endswith("AST::new")]
            if idx and not news:
                i0 = idx[0]["args"][1]
                first = z3.is_bv_value(i0) and i0.as_long() == 0 and z3.eq(idx[0]["argvals"][0], ext.to_val(s_, elems))
                same = z3.eq(rv, z3.simplify(ext.to_val(s_, idx[0]["ret"])))
                clt.append(z3.Implies(conj(p.cond), z3.And(ln == 1, z3.BoolVal(bool(first and same)))))
            elif news and not idx:
                nv = news[0]["args"][1]
                nv = ext.read_ref(s_, nv) if isinstance(nv, Ref) else nv
                tup = isinstance(nv, Agg) and nv.variant == "Tuple" and z3.eq(z3.simplify(ext.to_val(s_, nv.fields[0])), z3.simplify(ext.to_val(s_, elems)))
                clt.append(z3.Implies(conj(p.cond), z3.And(ln != 1, z3.BoolVal(bool(tup)))))
            else:
                clt.append(z3.Implies(conj(p.cond), z3.BoolVal(False)))
        if not n_ok:
            raise Unsupported("no Ok path")

        def replay_paren(model):
            pairs = [("def r: Int := 1 + 2 * 3\nprint(r)", "def r: Int := 1 + (2 * 3)\nprint(r)"), ("def r: Int := 7\nprint(r)", "def r: Int := (7)\nprint(r)"),
                     ("def a := 2\ndef r: Int := a * 3\nprint(r)", "def a := 2\ndef r: Int := ((a)) * 3\nprint(r)"),
                     ("def f(x: Int) -> Int => x + 1\nprint(f(2))", "def f(x: Int) -> Int => (x + 1)\nprint(f((2)))")]
            bad = []
            for plain, par in pairs:
                a, b = rp.transpile(plain), rp.transpile(par)
                if a != b:
                    bad.append(f"{par!r}: {b[0]} {b[1][:80]!r} instead of {a[0]} {a[1][:80]!r}")
            # ... and brackets around several expressions still make a tuple
            for src, must in (("def (a, b) := (1, 2)\nprint(b)", "(1, 2)"), ("def t := (1, 2, 3)\nprint(1)", "(1, 2, 3)")):
                stt, out = rp.transpile(src)
                if stt != "OK" or must not in out:
                    bad.append(f"{src!r}: {stt} {out[:80]!r} (no tuple {must})")
            if bad:
                return {"reproduced": True, "role": "redundant-parentheses", "detail": "; ".join(bad[:2])}
            return {"reproduced": False, "detail": f"{len(pairs)} programs with redundant parentheses transpile to the same bytes"}
        e2.prove_each(run, ob, ext, [], clt, {}, replay_paren)
    except Unsupported as e:
        ob.inconclusive(str(e))

    ob = run.ob("crlf-equals-lf", "E2", "one lexer step on '\\r' followed by '\\n' leaves exactly the state and (empty) token "
                "list that the step on '\\n' leaves, having consumed two characters; '\\r' followed by anything else is an error",
                ["into_tokens ('\\r' and '\\n' arms)", "State::token(NL)"])
    try:
        import lexstep
        sr = lexstep.StepRun(run, mir)
        exl, Sl = sr.ex, sr.S
        nl_paths = [p for p in sr.ends if p.kind == "return"]
        A_nl, A_cr, cl = None, [], []
        for p in nl_paths:
            r, _m, _dt, _ = e2.solve(exl, [sr.c == 10] + p.cond, 5000)
            if r == z3.sat and isinstance(p.ret, Agg) and p.ret.variant == "Ok":
                A_nl = (p, Sl.after(p))
        if A_nl is None:
            raise Unsupported("newline arm not found")
        n_cr = 0
        for p in nl_paths:
            r, _m, _dt, _ = e2.solve(exl, [sr.c == 13] + p.cond, 5000)
            if r != z3.sat:
                continue
            n_cr += 1
            c = z3.And(sr.c == 13, conj(p.cond))
            nxt_is_nl = z3.And(z3.UGE(sr.stream.n, 1), sr.stream.ch(z3.BitVecVal(0, 64)) == 10)
            if isinstance(p.ret, Agg) and p.ret.variant == "Ok":
                a, b = Sl.after(p), A_nl[1]
                same = conj([a["cur_indent"] == b["cur_indent"], a["line_indent"] == b["line_indent"],
                             a["token_this_line"] == b["token_this_line"], a["pos"].fields[0] == b["pos"].fields[0],
                             a["pos"].fields[1] == b["pos"].fields[1],
                             z3.BoolVal(isinstance(p.ret.fields[0], Seq) and not p.ret.fields[0].parts),
                             z3.BoolVal(len(a["newlines"].parts) == len(b["newlines"].parts))])
                cl.append(z3.Implies(c, z3.And(nxt_is_nl, same, sr._consumed(p.state) == 2)))
            else:
                cl.append(z3.Implies(c, z3.Not(nxt_is_nl)))
        if n_cr < 2:
            raise Unsupported("carriage-return arm: expected an Ok and an Err path")
        e2.prove_each(run, ob, exl, [Sl.inv()], cl, C18.names_of(Sl), replay_crlf(rp, "crlf"))
    except Unsupported as e:
        ob.inconclusive(str(e))

    if all(o.status == "discharged" for o in run.obs):
        n, bad = trivia_family(rp)
        n2, bad2 = comment_family(rp)
        n3, bad3 = crlf_family(rp)
        n, bad = n + n2 + n3, bad + bad2 + bad3
        run.validated += n
        if bad:
            run.ob("family-trivia", "native", "concrete trivia variants agree with discharged lemmas").inconclusive(str(bad[:2])[:600])
    rp.close()
