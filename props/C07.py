"""C07 — immutability: the mutability decision and where the flag is recorded (E2, MIR -> z3)."""
import re
import z3

import ckern
import common
import e2
from e2 import conj, disj, opq, sym_option, mk_struct, mk_variant, calls, result_kind
from mirsym import Exec, State, Opq, Agg, Ref, StrC, Seq, SymColl, Val, Unsupported, Fork

LEVEL = "model_checking"
EXPLANATION = ("check_iden_mut's per-field closure is executed symbolically from MIR with the environment look-up "
               "returning an arbitrary bounded set of (is_mut, type) entries (<= 2 slots, each present or absent): z3 "
               "decides that an error is produced exactly when the documented rule demands it; the Reassign arm of "
               "gen_call must run the mutability check before any constraint is added; id_from_var must record "
               "`mutable && field-mutable` for every inserted variable.")

CALL_RS = ckern.GEN + "call.rs"
DEF_RS = ckern.GEN + "definition.rs"


def family(rp):
    f = e2.Family(rp)
    f.add("reassign-fin-variable", "def fin x := 1\nx := 2", "reject")
    f.add("reassign-undefined", "y := 1", "reject")
    f.add("reassign-mutable-variable", "def x := 1\nx := 2", "accept")
    f.add("compound-assign-fin", "def fin x: Int := 1\nx += 1", "reject")
    f.add("compound-assign-mutable", "def x: Int := 1\nx += 1", "accept")
    f.add("reassign-fin-parameter", "def f(fin a: Int) => a := 2", "reject")
    f.add("reassign-mutable-parameter", "def f(a: Int) => a := 2", "accept")
    f.add("field-through-fin-receiver", "class A\n    def v: Int := 1\ndef fin z := A()\nz.v := 2", "reject")
    f.add("field-through-mutable-receiver", "class A\n    def v: Int := 1\ndef z := A()\nz.v := 2", "accept")
    f.add("field-through-fin-self", "class A\n    def v: Int := 1\n    def m(fin self) => self.v := 3", "reject")
    f.add("fin-self-compound-assignment", "class A\n    def v: Int := 1\n    def m(fin self) => self.v += 3", "reject")
    f.add("fin-self-reassigned", "class A\n    def v: Int := 1\n    def m(fin self) => self := A()", "reject")
    f.add("field-through-mutable-self", "class A\n    def v: Int := 1\n    def m(self) => self.v := 3", "accept")
    f.add("nested-field-mutable-chain", "class B\n    def w: Int := 1\nclass A\n    def b: B := B()\ndef z := A()\nz.b.w := 2", "accept")
    f.add("self-outside-class", "self.v := 3", "reject")
    f.add("self-in-function-outside-class", "def f() => self.v := 3", "reject")
    f.add("one-branch-shadow-then-reassign-fin", "def fin x := 10\nif x > 5 then\n    def x := 1\n    print(x)\nelse\n    print(\"small\")\nx := 5\nprint(x)\n", "reject")
    f.add("one-branch-shadow-then-reassign-mutable", "def x := 10\nif x > 5 then\n    def x := 1\n    print(x)\nelse\n    print(\"small\")\nx := 5\nprint(x)\n", "accept")
    f.add("else-branch-shadow-then-reassign-fin", "def fin x := 10\nif x > 5 then\n    print(\"big\")\nelse\n    def x := 1\n    print(x)\nx := 5\n", "reject")
    f.add("loop-shadow-then-reassign-fin", "def fin x := 10\nfor i in 0 .. 2 do\n    def x := 1\n    print(x)\nx := 5\n", "reject")
    f.add("loop-variable-shadow-then-reassign-fin", "def fin i := 10\nfor i in [1, 2] do print(i)\ni := 3", "reject")
    f.add("loop-variable-shadow-then-reassign-mutable", "def i := 10\nfor i in [1, 2] do print(i)\ni := 3", "accept")
    f.add("loop-variable-assigned-after-loop", "for k in [1, 2] do print(k)\nk := 3", "reject")
    f.add("shadowed-by-fin", "def x := 1\ndef fin x := 2\nx := 3", "reject")
    f.add("shadowed-by-mutable", "def fin x := 1\ndef x := 2\nx := 3", "accept")
    f.add("reassign-fin-in-branch", "def fin x := 1\nif True then\n    x := 2", "reject")
    f.add("reassign-mutable-in-branch", "def x := 1\nif True then\n    x := 2", "accept")
    f.add("reassign-fin-in-function", "def fin x := 1\ndef f() =>\n    x := 2", "reject")
    return f


def vec_empty(ex, st, v):
    if isinstance(v, Seq):
        return v.length() == 0
    if isinstance(v, SymColl):
        return z3.And(*[z3.Not(p) for p, _ in v.items]) if v.items else z3.BoolVal(True)
    raise Unsupported(f"not a vector: {v}")


def ob_closure(run, mir, rp, fam):
    ob = run.ob("mutability-decision", "E2", "per identifier field (f_mut, var): error iff the field is declared "
                "immutable, or the name is undefined (unless it is `self` inside a class), or some visible definition of "
                "the name is immutable; all-mutable definitions give no error", ["check_iden_mut::{closure#0}", "::{closure#0}::{closure#0}", "::{closure#0}::{closure#1}"])
    fn = e2.find1(mir, file=CALL_RS, name="check_iden_mut", closure=["{closure#0}"])
    K = 2
    pres = [z3.Bool(f"entry{i}.present") for i in range(K)]
    muts = [z3.Bool(f"entry{i}.is_mut") for i in range(K)]
    found = z3.Bool("get_var.is_some")

    def m_get_var(ex, st, fr, callee, args, argtys, dty):
        items = [(pres[i], Agg("tuple", None, [muts[i], opq(f"entry{i}.type", "Expected")])) for i in range(K)]
        st.events.append({"callee": callee, "name": "Environment::get_var", "args": args, "argvals": [ex.to_val(st, a) for a in args],
                          "ret": None, "in": ex.canon_item(fr.fn), "depth": len(st.frames), "ncond": len(st.cond)})
        return Fork([(found, Agg("Option", "Some", [SymColl(items)])), (z3.Not(found), Agg("Option", "None", []))])
    ex = Exec(mir, models=[(r"^Environment::get_var$", m_get_var)], max_paths=5000)
    st = State()
    f_mut = z3.Bool("f_mut")
    var = opq("var", "String")
    cls, cls_some = sym_option("env.class", opq("env.class.v", "StringName"), "Option<StringName>")
    env, ev = ckern.sym_env(ex, st, **{"class": cls})
    mapping = Ref(ex.new_cell(st, opq("constr.var_mapping", "HashMap")))
    closure_env = Agg("closure", "{closure@check_iden_mut#0}", [env, mapping])
    elem = Agg("tuple", None, [f_mut, var])
    ends = e2.run_kernel(run, ex, fn, [Ref(ex.new_cell(st, closure_env)), Ref(ex.new_cell(st, elem))], st)
    is_self = ex.to_val(st, var) == ex.strc("self")
    claims = [disj([conj(p.cond) for p in ends if p.kind == "return"])]
    for p in ends:
        c = conj(p.cond)
        if p.kind != "return":
            claims.append(z3.Not(c))
            continue
        s = p.state
        empty = vec_empty(ex, s, p.ret)
        some_immutable = z3.Or(*[z3.And(pres[i], z3.Not(muts[i])) for i in range(K)])
        want_err = z3.Or(z3.Not(f_mut),
                         z3.And(f_mut, z3.Not(found), z3.Not(z3.And(is_self, cls_some))),
                         z3.And(f_mut, found, some_immutable))
        gv = calls(p, "Environment::get_var")
        looked_up = z3.BoolVal(bool(gv)) if True else None
        arg_ok = z3.BoolVal(True)
        if gv:
            arg_ok = z3.And(gv[0]["argvals"][0] == ex.to_val(s, env), gv[0]["argvals"][1] == ex.to_val(s, var),
                            gv[0]["argvals"][2] == ex.to_val(s, mapping))
        claims.append(z3.Implies(c, z3.And(empty == z3.Not(want_err), arg_ok)))
    names = {"f_mut": f_mut, "get_var.is_some": found, "var_is_self": is_self, "env.class.is_some": cls_some}
    names.update({f"entry{i}.present": pres[i] for i in range(K)})
    names.update({f"entry{i}.is_mut": muts[i] for i in range(K)})
    e2.prove(run, ob, ex, [], conj(claims), names, fam.as_replay("mutability-decision:"))
    run.samples.append({"obligation": ob.id, "paths": len(ends), "entry_slots": K})


def ob_outer(run, mir, rp, fam):
    ob = run.ob("mutability-errors-reported", "E2", "check_iden_mut returns Err exactly when the collected per-field "
                "messages are non-empty (and propagates an error of Identifier::fields)", ["check_iden_mut"])
    fn = e2.find1(mir, file=CALL_RS, name="check_iden_mut")
    ex = Exec(mir, max_paths=5000)
    st = State()
    ident, env, constr = ckern.refs(ex, st, "identifier", "env", "constr")
    ends = e2.run_kernel(run, ex, fn, [ident, env, constr, opq("pos", "Position")], st)
    claims = []
    for p in ends:
        c = conj(p.cond)
        s = p.state
        kind = result_kind(p)
        if kind is None:
            claims.append(z3.Not(c))
            continue
        fields = calls(p, "Identifier::fields")
        if not fields:
            claims.append(z3.Not(c))
            continue
        d = ex.discr(s, fields[0]["ret"], "Result<Vec<(bool, String)>, Vec<TypeErr>>")
        col = [ev for ev in p.events if ev["name"] == "Iterator::collect"]
        if not col:
            claims.append(z3.Implies(c, z3.And(d == 1, z3.BoolVal(kind == "Err"))))
            continue
        errs = col[0]["ret"]
        empty = ex.uf("seq:len", Val, z3.BitVecSort(64))(ex.to_val(s, errs)) == 0
        fm = [ev for ev in p.events if ev["name"] == "Iterator::flat_map"]
        uses_closure = bool(fm) and "check_iden_mut{closure#0}" in str(fm[0]["argvals"][1])
        claims.append(z3.Implies(c, z3.And(z3.BoolVal(uses_closure), z3.BoolVal(kind == "Ok") == empty)))
    e2.prove(run, ob, ex, [], conj(claims), {}, fam.as_replay("mutability-errors:"))


def ob_reassign_order(run, mir, rp, fam):
    ob = run.ob("reassign-checks-first", "E2", "gen_call Reassign: check_reassignable and check_iden_mut run on the "
                "left-hand side before any constraint is added, and their errors abort the statement", ["gen_call"])
    fn = e2.find1(mir, file=CALL_RS, name="gen_call")
    ex = Exec(mir, max_paths=20000)
    st = State()
    left, lpos = ckern.mk_ast("left", opq("left.node", "Node"))
    right, _ = ckern.mk_ast("right", opq("right.node", "Node"))
    lbox, rbox = Ref(ex.new_cell(st, left)), Ref(ex.new_cell(st, right))
    node = ckern.mk_node("Reassign", {"left": lbox, "right": rbox, "op": opq("op", "NodeOp")})
    ast, _ = ckern.mk_ast("ast", node)
    env, ctx, constr = ckern.refs(ex, st, "env", "ctx", "constr")
    ends = e2.run_kernel(run, ex, fn, [Ref(ex.new_cell(st, ast)), env, ctx, constr], st)
    claims = []
    for p in ends:
        c = conj(p.cond)
        s = p.state
        kind = result_kind(p)
        names = [ev["name"] for ev in p.events]
        cr = calls(p, "check_reassignable")
        cm = calls(p, "check_iden_mut")
        first_add = next((i for i, n in enumerate(names) if n in ("ConstrBuilder::add", "ConstrBuilder::add_constr", "generate", "reassign_op")), None)
        spec = [z3.BoolVal(bool(cr)), cr[0]["argvals"][0] == ex.to_val(s, lbox) if cr else z3.BoolVal(False)]
        if cr:
            d_cr = ex.discr(s, cr[0]["ret"], "Result<Identifier, Vec<TypeErr>>")
            spec.append(z3.Implies(d_cr == 1, z3.BoolVal(kind == "Err" and first_add is None and not cm)))
            if cm:
                ident = ex.project(s, ex.project(s, cr[0]["ret"], ("v", "Ok")), ("f", 0), "Identifier")
                d_cm = ex.discr(s, cm[0]["ret"], "Result<(), Vec<TypeErr>>")
                spec.append(z3.And(cm[0]["argvals"][0] == ex.to_val(s, ident), cm[0]["argvals"][1] == ex.to_val(s, env)))
                spec.append(z3.Implies(d_cm == 1, z3.BoolVal(kind == "Err" and first_add is None)))
                if first_add is not None:
                    spec.append(z3.BoolVal(names.index("check_iden_mut") < first_add))
            else:
                spec.append(z3.And(d_cr == 1, z3.BoolVal(first_add is None)))
        claims.append(z3.Implies(c, conj(spec)))
    e2.prove(run, ob, ex, [], conj(claims), {}, fam.as_replay("reassign-order:"))


def ob_reassignable(run, mir, rp, fam):
    ob = run.ob("reassignable-chain", "E2", "check_reassignable on a property access: a tuple pattern on either side is refused, errors of the "
                "recursive checks propagate, and otherwise the identifier chain is Call(receiver chain, property chain) - receiver "
                "first - so that the per-field mutability test sees the fields in access order; any other node is judged by "
                "Identifier::try_from alone", ["check_reassignable"])
    fn = e2.find1(mir, file=CALL_RS, name="check_reassignable")
    ex = Exec(mir, max_paths=5000)
    st = State()
    inst, _ = ckern.mk_ast("instance", opq("instance.node", "Node"))
    prop, _ = ckern.mk_ast("property", opq("property.node", "Node"))
    ibox, pbox = Ref(ex.new_cell(st, inst)), Ref(ex.new_cell(st, prop))
    node = ckern.mk_node("PropertyCall", {"instance": ibox, "property": pbox})
    ast, _ = ckern.mk_ast("ast", node)
    ends = e2.run_kernel(run, ex, fn, [Ref(ex.new_cell(st, ast))], st)
    claims, n_ok = [], 0
    IT = "Result<Identifier, Vec<TypeErr>>"
    for p in ends:
        if p.kind != "return":
            raise Unsupported(f"unexpected path end {p}")
        c = conj(p.cond)
        s = p.state
        kind = result_kind(p)
        rec = calls(p, "check_reassignable")
        by = {}
        for ev in rec:
            a0 = ev["args"][0]
            if z3.eq(ev["argvals"][0], ex.to_val(s, pbox)):
                by["property"] = ev
            elif z3.eq(ev["argvals"][0], ex.to_val(s, ibox)):
                by["instance"] = ev
        spec = [z3.BoolVal("property" in by)]
        if "property" in by:
            rp_ = by["property"]["ret"]
            dp = ex.discr(s, rp_, IT)
            idp = ex.project(s, ex.project(s, rp_, ("v", "Ok")), ("f", 0), "Identifier")
            dip = ex.discr(s, idp, "Identifier")
            spec.append(z3.Implies(dp == 1, z3.BoolVal(kind == "Err")))
            spec.append(z3.Implies(z3.And(dp == 0, dip == 1), z3.BoolVal(kind == "Err")))      # Multi property
            if "instance" in by:
                ri = by["instance"]["ret"]
                di = ex.discr(s, ri, IT)
                idi = ex.project(s, ex.project(s, ri, ("v", "Ok")), ("f", 0), "Identifier")
                dii = ex.discr(s, idi, "Identifier")
                spec.append(z3.Implies(di == 1, z3.BoolVal(kind == "Err")))
                spec.append(z3.Implies(z3.And(di == 0, dii == 1), z3.BoolVal(kind == "Err")))  # Multi receiver
                if kind == "Ok":
                    n_ok += 1
                    r = p.ret.fields[0]
                    okshape = z3.BoolVal(False)
                    if isinstance(r, Agg) and r.ty == "Identifier" and r.variant == "Single" and isinstance(r.fields[1], Agg) \
                            and r.fields[1].variant == "Call":
                        call = r.fields[1]
                        sp_ = ex.project(s, idp, ("v", "Single"))
                        si_ = ex.project(s, idi, ("v", "Single"))
                        want_prop = ex.project(s, sp_, ("f", 1), "IdentiCall")
                        want_inst = ex.project(s, si_, ("f", 1), "IdentiCall")
                        okshape = z3.And(ex.to_val(s, call.fields[0]) == ex.to_val(s, want_inst),
                                         ex.to_val(s, call.fields[1]) == ex.to_val(s, want_prop))
                    spec.append(z3.And(dp == 0, dip == 0, di == 0, dii == 0, okshape))
            else:
                spec.append(z3.BoolVal(kind == "Err"))
        claims.append(z3.Implies(c, conj(spec)))
    if not n_ok:
        raise Unsupported("no Ok path")
    e2.prove(run, ob, ex, [], conj(claims), {}, fam.as_replay("reassignable:", only=["field-", "nested-field", "tuple-"]))
    run.samples.append({"obligation": ob.id, "paths": len(ends), "ok_paths": n_ok})


def ob_insert_flag(run, mir, rp, fam):
    ob = run.ob("mutability-recorded", "E2", "id_from_var records every variable with the flag `mutable && field-mutable` "
                "(all four arms, loop bodies from a havocked loop state)", ["id_from_var"])
    fn = e2.find1(mir, file=DEF_RS, name="id_from_var")
    ex = Exec(mir, max_paths=20000)
    st = State()
    var, _ = ckern.mk_ast("var", opq("var.node", "Node"))
    ty, _ts = sym_option("ty", opq("ty.v", "Name"), "Option<Name>")
    e_ast, _ = ckern.mk_ast("init", opq("init.node", "Node"))
    expr, _es = sym_option("expr", Ref(ex.new_cell(st, e_ast)), "Option<Box<AST>>")
    mutable = z3.Bool("mutable")
    ctx, constr = ckern.refs(ex, st, "ctx", "constr")
    env, ev = ckern.sym_env(ex, st)
    ends = e2.run_kernel(run, ex, fn, [Ref(ex.new_cell(st, var)), Ref(ex.new_cell(st, ty)), Ref(ex.new_cell(st, expr)), mutable, ctx, constr, env], st)
    claims, n_ins = [], 0
    for p in ends:
        c = conj(p.cond)
        s = p.state
        ins = calls(p, "Environment::insert_var")
        for ev_ in ins:
            n_ins += 1
            flag = ev_["args"][1]
            if not z3.is_bool(flag):
                claims.append(z3.Not(c))
                continue
            # the flag must be mutable ∧ (some boolean that does not depend on `mutable`)
            claims.append(z3.Implies(z3.And(c, z3.Not(mutable)), z3.Not(flag)))
            fl_true = z3.substitute(flag, (mutable, z3.BoolVal(True)))
            # with mutable = true the flag is exactly the element's own f_mut: a boolean projection of the loop item
            claims.append(z3.Implies(z3.And(c, mutable), flag == fl_true))
            claims.append(z3.BoolVal("mutable" not in str(z3.simplify(fl_true))))
    if n_ins < 4:
        raise Unsupported(f"only {n_ins} insert_var sites reached")
    # and the element flag is not constant true: some path must be able to make it false while mutable
    e2.prove(run, ob, ex, [], conj(claims), {"mutable": mutable}, fam.as_replay("mutability-recorded:"))


UNIFY_FUN_RS = "src/check/constrain/unify/function.rs"
FIELD_RS = "src/check/context/field/mod.rs"


def fin_field_family(rp):
    f = e2.Family(rp)
    f.add("instance", "class A\n    def fin x: Int := 1\ndef a := A()\na.x := 2", "reject")
    f.add("self", "class A\n    def fin x: Int := 1\n    def m(self) => self.x := 2", "reject")
    f.add("class-argument", "class A(def fin x: Int)\ndef a := A(1)\na.x := 2", "reject")
    f.add("compound", "class A\n    def fin x: Int := 1\ndef a := A()\na.x += 2", "reject")
    f.add("mutable-field-control", "class A\n    def x: Int := 1\ndef a := A()\na.x := 2", "accept")
    f.add("mutable-self-control", "class A\n    def x: Int := 1\n    def m(self) => self.x := 2", "accept")
    f.add("fin-field-read-control", "class A\n    def fin x: Int := 1\ndef a := A()\ndef y: Int := a.x", "accept")
    f.add("fin-field-read-into-reassignment-control", "class A\n    def fin x: Int := 1\ndef a := A()\ndef y: Int := 0\ny := a.x", "accept")
    return f


def ob_fin_field(run, mir, rp, fam):
    ob = run.ob("fin-field-protected", "E2", "field_access (where the unifier resolves `receiver.field` against the class of the receiver), one iteration of the "
                "loop over the receiver's classes: when the constraint stems from a reassignment (message `reassign`, the only thing that tells an "
                "assignment target from a read there) and the field is declared `fin` (Field::mutable = false), the path is an error - no constraint "
                "is queued and unification does not go on", ["field_access (loop body)"])
    fn = e2.find1(mir, file=UNIFY_FUN_RS, name="field_access")
    ex = Exec(mir, max_paths=20000)
    st = State()
    names_ = ["constraints", "finished", "ctx", "entity_name", "name", "accessed", "other", "msg", "total"]
    if len(fn.args) != len(names_):
        raise Unsupported(f"field_access: signature changed ({len(fn.args)} parameters)")
    args = []
    for (an, aty), nm in zip(fn.args, names_):
        t = aty.strip()
        if t == "usize":
            v = z3.BitVec("total", 64)
        elif t.startswith("&") and not t.startswith("&[") and t != "&str":
            v = Ref(ex.new_cell(st, opq(nm, t.lstrip("&").replace("mut ", "").strip())))
        else:
            v = opq(nm, t)
        args.append(v)
    by = dict(zip(names_, args))
    ends = e2.run_kernel(run, ex, fn, args, st)
    ff = e2.rust_struct(FIELD_RS, "Field")
    is_reassign = ex.to_val(st, by["msg"]) == ex.to_val(st, StrC("reassign"))
    claims, n = [], 0
    reads_flag = False
    for p in ends:
        gets = [e_ for e_ in p.events if e_["name"].endswith("GetField::field")]
        pushes = calls(p, "Constraints::push")
        if not gets or not pushes:
            continue
        n += 1
        s = p.state
        fld = ex.project(s, ex.project(s, gets[-1]["ret"], ("v", "Ok")), ("f", 0), "Field")
        mut = ex.project(s, fld, ("f", ff.index("mutable")), "bool")
        if not z3.is_bool(mut):
            raise Unsupported("Field::mutable is not a boolean term")
        if any(str(mut) in str(cnd) for cnd in p.cond):
            reads_flag = True
        claims.append(z3.Implies(z3.And(conj(p.cond), is_reassign), mut))
    if not n:
        raise Unsupported("no path queues a field constraint")
    ffam = fin_field_family(rp)

    def replay(model):
        k, bad = ffam.run()
        if bad:
            roles = sorted(b["role"] for b in bad)
            return {"reproduced": True, "role": "fin-field-reassigned:" + "+".join(roles), "failing_programs": roles,
                    "detail": f"program {bad[0]['src']!r}: expected {bad[0]['expected']}, real verdict {bad[0]['got']}" +
                              ("" if reads_flag else "; field_access never looks at Field::mutable")}
        return {"reproduced": False, "detail": f"all {k} programs behave as required"}
    e2.prove(run, ob, ex, [], conj(claims), {"message is `reassign`": is_reassign}, replay)
    if ob.status == "discharged":
        k, bad = ffam.run()
        run.validated += k
        if bad:
            ob.status = "pending"
            ob.inconclusive(f"fin-field family disagrees although the kernel is as specified: {bad[:2]}")
    run.samples.append({"obligation": ob.id, "queueing_paths": n, "reads_Field_mutable": reads_flag})


def ob_parameter_flag(run, mir, rp, fam):
    ob = run.ob("parameter-mutability-recorded", "E2", "constrain_args, one iteration of the loop over the parameters from an arbitrary loop state: every parameter - "
                "`self` included - is recorded through id_from_var with the `mutable` flag of its own FunArg node (false for `fin`), its own identifier, "
                "in the environment accumulated so far", ["constrain_args (loop body)"])
    fn = e2.find1(mir, file="src/check/constrain/generate/definition.rs", name="constrain_args")
    ex = Exec(mir, max_paths=20000, inline=[ckern.ENV_SETTERS])
    st = State()
    env, _ev = ckern.sym_env(ex, st)
    ctx, constr = ckern.refs(ex, st, "ctx", "constr")
    ends = e2.run_kernel(run, ex, fn, [opq("args", "&[AST]"), env, ctx, constr], st)
    _rel, lay = ckern.node_enum()
    astf = e2.rust_struct(ckern.AST_RS, "AST")
    claims, n = [], 0
    for p in ends:
        ids = calls(p, "id_from_var")
        nx = calls(p, "Iterator::next")
        if not ids or not nx:
            continue
        n += 1
        s = p.state
        arg = ex.project(s, ex.project(s, nx[-1]["ret"], ("v", "Some")), ("f", 0), "&AST")
        fa = ex.project(s, ex.project(s, arg, ("f", astf.index("node")), "Node"), ("v", "FunArg"))
        mut = ex.project(s, fa, ("f", lay["FunArg"].index("mutable")), "bool")
        var = ex.project(s, fa, ("f", lay["FunArg"].index("var")), "Box<AST>")
        a = ids[-1]
        flag = a["args"][3]
        cl = [z3.BoolVal(len(ids) == 1)]
        cl.append(flag == mut if (z3.is_bool(flag) and z3.is_bool(mut)) else z3.BoolVal(False))
        cl.append(a["argvals"][0] == ex.to_val(s, var))
        claims.append(z3.Implies(conj(p.cond), conj(cl)))
    if n < 2:
        raise Unsupported(f"{n} paths record a parameter")
    e2.prove(run, ob, ex, [], conj(claims), {}, fam.as_replay("parameter-flag:", only=["field-through-fin-self", "field-through-mutable-self", "reassign-fin-parameter", "reassign-mutable-parameter", "fin-self"]))
    run.samples.append({"obligation": ob.id, "recording_paths": n})


def run(run):
    mir = e2.load_mir(run)
    rp = common.Replay()
    fam = family(rp)
    run.assume("Environment::get_var returns an arbitrary set of at most 2 (is_mut, type) entries (bounded symbolic collection)",
               "HashSet/iterator adaptors follow their documented semantics on the bounded collection; closures are executed from their own MIR",
               "outside: shadowing offsets (var_mapping), tuple destructuring through match_name, fin self / fin fields in the unifier")
    run.trusted += ["rustc nightly MIR dump", "mirsym MIR semantics", "z3"]
    run.bounds = {"entries_per_name": 2, "paths": "all paths, loops cut at headers"}
    for f in (ob_closure, ob_outer, ob_reassign_order, ob_reassignable, ob_insert_flag, ob_parameter_flag, ob_fin_field):
        try:
            f(run, mir, rp, fam)
        except Unsupported as e:
            run.ob(f.__name__[3:] + "-encoding", "E2", "kernel is encodable").inconclusive(f"unsupported construct: {e}")
    try:
        # a mutable re-definition inside a branch or loop body must not shadow an outer `fin` afterwards: the environments
        # that flow on are the incoming ones (same kernels as C09, replayed with the immutability family)
        from props import C09
        C09.ob_flow(run, mir, rp, fam)
    except Unsupported as e:
        run.ob("flow-encoding", "E2", "kernel is encodable").inconclusive(f"unsupported construct: {e}")
    if run.clean():
        e2.validate_family(run, fam, "immutability")
    rp.close()
