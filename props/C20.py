"""C20 — assignability is a sound order: reflexivity, Any top, nullable rules, member-wise union (E2)."""
import re
import z3

import ckern
import common
import e2
from e2 import conj, disj, opq, sym_option, mk_struct, mk_variant, calls, result_kind
from mirsym import Exec, State, Opq, Agg, Ref, StrC, Seq, SymColl, Val, Unsupported, Fork
from mirsym import m_str_eq
from props import C06

LEVEL = "model_checking"
EXPLANATION = ("Class::has_parent (entry block and ancestor search over a bounded symbolic parent set), "
               "TrueName::is_superset_of (nullable rules), the loop body of Name::is_superset_of over a bounded symbolic "
               "member set, and Ord for TrueName are executed symbolically from MIR; z3 decides reflexivity, Any as top, the "
               "nullable rules, ancestor propagation, the member-wise union rule and that the ordering used to render unions "
               "is a total order consistent with equality.")

CLSS_RS = "src/check/context/clss/mod.rs"
NAME_RS = "src/check/name/mod.rs"
TRUE_NAME_RS = "src/check/name/true_name/mod.rs"
STRING_NAME_RS = "src/check/name/string_name/mod.rs"

HIER = "class A\n    def a: Int := 1\nclass B: A\n    def b: Int := 2\nclass C\n    def c: Int := 3\n"


def family(rp):
    f = e2.Family(rp)
    f.add("reflexive-class", HIER + "def x: A := A()", "accept")
    f.add("reflexive-primitive", "def x: Int := 1", "accept")
    f.add("class-to-any", HIER + "def x: Any := A()", "accept")
    f.add("primitive-to-any", "def x: Any := 1", "accept")
    f.add("child-to-parent", HIER + "def x: A := B()", "accept")
    f.add("parent-to-child", HIER + "def x: B := A()", "reject")
    f.add("unrelated-class", HIER + "def x: A := C()", "reject")
    f.add("int-to-float", "def x: Float := 1", "accept")
    f.add("float-to-int", "def x: Int := 1.5", "reject")
    f.add("value-to-nullable", "def x: Int? := 1", "accept")
    f.add("none-to-nullable", "def x: Int? := None", "accept")
    f.add("nullable-to-value", "def y: Int? := 1\ndef x: Int := y", "reject")
    f.add("member-to-union", "def x: {Int, Str} := 1", "accept")
    f.add("other-member-to-union", "def x: {Int, Str} := \"s\"", "accept")
    f.add("non-member-to-union", "def x: {Int, Str} := 1.5", "reject")
    f.add("union-to-member", "def y: {Int, Str} := 1\ndef x: Int := y", "reject")
    f.add("tuple-first-generic-mismatch", "def f() -> (Str, Int) => (\"a\", 1)\ndef x: (Int, Int) := f()", "reject")
    f.add("tuple-last-generic-mismatch", "def f() -> (Int, Str) => (1, \"a\")\ndef x: (Int, Int) := f()", "reject")
    f.add("tuple-generics-match", "def f() -> (Int, Int) => (1, 2)\ndef x: (Int, Int) := f()", "accept")
    f.add("tuple-generics-subtype", "def f() -> (Int, Int) => (1, 2)\ndef x: (Float, Int) := f()", "accept")
    f.add("union-to-same-union", "def y: {Int, Str} := 1\ndef x: {Str, Int} := y", "accept")
    return f


def ob_has_parent(run, mir, rp, fam):
    ob = run.ob("has-parent", "E2", "Class::has_parent(name): a class is its own parent (reflexive), Any is everybody's "
                "parent, and otherwise (no generics involved) the answer is the disjunction over the declared parents of "
                "their own has_parent answers, errors of the look-ups propagated", ["Class::has_parent(&StringName)", "::{closure#0}", "::{closure#1}"])
    cands = [f for f in mir.find(file=CLSS_RS, impl="impl HasParent<&StringName> for Class", name="has_parent")]
    if len(cands) != 1:
        raise Unsupported(f"has_parent lookup matched {len(cands)}")
    fn = cands[0]
    K = 2
    pres = [z3.Bool(f"parent{i}.present") for i in range(K)]
    parents = [opq(f"parent{i}", "TrueName") for i in range(K)]
    ex = Exec(mir, max_paths=20000, models=[(r"^<StringName as PartialEq>::(eq|ne)$", m_str_eq)])
    st = State()
    sname_name, sname_gen = opq("self.name.name", "String"), Seq()
    oname_name, oname_gen = opq("other.name", "String"), Seq()
    sn = mk_struct(STRING_NAME_RS, "StringName", {"name": sname_name, "generics": sname_gen})
    on = mk_struct(STRING_NAME_RS, "StringName", {"name": oname_name, "generics": oname_gen})
    cls, _cv = e2.sym_struct(CLSS_RS, "Class", "self", {"name": sn, "parents": SymColl([(pres[i], parents[i]) for i in range(K)])})
    ctx = Ref(ex.new_cell(st, opq("ctx", "Context")))
    pos = opq("pos", "Position")
    other = Ref(ex.new_cell(st, on))
    ends = e2.run_kernel(run, ex, fn, [Ref(ex.new_cell(st, cls)), other, ctx, pos], st)
    same = ex.to_val(st, sn) == ex.to_val(st, on)
    is_any = ex.to_val(st, oname_name) == ex.strc("Any")
    same_name = ex.to_val(st, sname_name) == ex.to_val(st, oname_name)
    tuple_case = z3.And(ex.to_val(st, sname_name) == ex.strc("Tuple"),
                        z3.Or(ex.to_val(st, oname_name) == ex.strc("Tuple"), ex.to_val(st, oname_name) == ex.strc("Collection")))
    claims = [disj([conj(p.cond) for p in ends if p.kind in ("return", "loop_back")])]
    anc_ok, anc_val = [], []
    for i in range(K):
        c_ = ex.app("Context.LookupClass::class", [ctx, parents[i], pos], "Result<Class, Vec<TypeErr>>", st)
        d_c = ex.discr(st, c_, "Result")
        cv = ex.project(st, ex.project(st, c_, ("v", "Ok")), ("f", 0), "Class")
        hp = ex.app("Class.HasParent::has_parent", [cv, other, ctx, pos], "Result<bool, Vec<TypeErr>>", st)
        d_h = ex.discr(st, hp, "Result")
        hv = ex.project(st, ex.project(st, hp, ("v", "Ok")), ("f", 0), "bool")
        anc_ok.append(z3.Implies(pres[i], z3.And(d_c == 0, d_h == 0)))
        anc_val.append(z3.And(pres[i], hv))
    for p in ends:
        c = conj(p.cond)
        kind = result_kind(p)
        if p.kind == "loop_back":
            continue
        if kind is None:
            claims.append(z3.Not(c))
            continue
        okv = p.ret.fields[0] if kind == "Ok" else None
        spec = [z3.Implies(z3.Or(same, is_any), z3.And(z3.BoolVal(kind == "Ok"), okv if okv is not None else z3.BoolVal(False)))]
        # generics are empty here, so the "contender" block yields true exactly for equal names (covered by `same`)
        plain = z3.And(z3.Not(same), z3.Not(is_any), z3.Not(same_name), z3.Not(tuple_case))
        if kind == "Ok":
            spec.append(z3.Implies(plain, z3.And(conj(anc_ok), okv == z3.Or(*anc_val))))
        else:
            spec.append(z3.Implies(plain, z3.Not(conj(anc_ok))))
        claims.append(z3.Implies(c, conj(spec)))
    names = {"self.name == other": same, "other is Any": is_any}
    names.update({f"parent{i}.present": pres[i] for i in range(K)})
    e2.prove(run, ob, ex, [], conj(claims), names,
             fam.as_replay("has-parent:", only=["reflexive", "class-to-any", "primitive-to-any", "child-", "parent-", "unrelated", "int-to", "float-to"]))
    run.samples.append({"obligation": ob.id, "paths": len(ends), "parent_slots": K})


def ob_has_parent_name(run, mir, rp, fam, only=None):
    ob = run.ob("has-parent-of-name", "E2", "Class::has_parent(&Name) (used for `raise [E]` declarations): true at once when "
                "the name contains the class or is Any; otherwise, for one member of the name from an arbitrary loop state, "
                "true exactly when SOME declared parent (<= 2) has that member as ancestor, errors propagated; false when "
                "the members are exhausted", ["Class::has_parent(&Name)", "::{closure#0..2}"])
    fn = e2.find1(mir, file=CLSS_RS, impl="impl HasParent<&Name> for Class", name="has_parent")
    K = 2
    pres = [z3.Bool(f"parent{i}.present") for i in range(K)]
    parents = [opq(f"parent{i}", "TrueName") for i in range(K)]
    ex = Exec(mir, max_paths=20000)
    st = State()
    cls, cv = e2.sym_struct(CLSS_RS, "Class", "self", {"parents": SymColl([(pres[i], parents[i]) for i in range(K)])})
    ctx = Ref(ex.new_cell(st, opq("ctx", "Context")))
    pos = opq("pos", "Position")
    name = Ref(ex.new_cell(st, opq("name", "Name")))
    ends = e2.run_kernel(run, ex, fn, [Ref(ex.new_cell(st, cls)), name, ctx, pos], st)
    claims, n_body = [], 0
    for p in ends:
        c = conj(p.cond)
        s = p.state
        kind = result_kind(p)
        nx = calls(p, "Iterator::next")
        if not nx:
            # before the loop: the shortcut, or an error while looking the parents up
            cont = calls(p, "Name::contains")
            if kind == "Ok":
                okv = p.ret.fields[0]
                claims.append(z3.Implies(c, okv if z3.is_bool(okv) else z3.BoolVal(False)))
            continue
        item = nx[-1]["ret"]
        d_opt = ex.discr(s, item, "Option<StringName>")
        member = ex.project(s, ex.project(s, item, ("v", "Some")), ("f", 0), "StringName")
        ans_ok, ans = [], []
        for i in range(K):
            pn = ex.app("StringName.From::from", [parents[i]], "StringName", s)
            c_ = ex.app("Context.LookupClass::class", [ctx, pn, pos], "Result<Class, Vec<TypeErr>>", s)
            cvv = ex.project(s, ex.project(s, c_, ("v", "Ok")), ("f", 0), "Class")
            hp = ex.app("Class.HasParent::has_parent", [cvv, member, ctx, pos], "Result<bool, Vec<TypeErr>>", s)
            d_h = ex.discr(s, hp, "Result")
            hv = ex.project(s, ex.project(s, hp, ("v", "Ok")), ("f", 0), "bool")
            ans_ok.append(z3.Implies(pres[i], d_h == 0))
            ans.append(z3.And(pres[i], hv))
        any_ans = z3.Or(*ans)
        if p.kind == "loop_back":
            n_body += 1
            claims.append(z3.Implies(c, z3.And(d_opt == 1, conj(ans_ok), z3.Not(any_ans))))
        elif kind == "Ok":
            okv = p.ret.fields[0]
            claims.append(z3.Implies(z3.And(c, d_opt == 0), z3.Not(okv)))
            claims.append(z3.Implies(z3.And(c, d_opt == 1), z3.And(conj(ans_ok), any_ans, okv)))
        elif kind == "Err":
            claims.append(z3.Implies(c, z3.And(d_opt == 1, z3.Not(conj(ans_ok)))))
        else:
            claims.append(z3.Not(c))
    if not n_body:
        raise Unsupported("loop body not reached")
    names = {f"parent{i}.present": pres[i] for i in range(K)}
    e2.prove_each(run, ob, ex, [], claims, names, fam.as_replay("has-parent-of-name:", only=only))


def ob_generics(run, mir, rp, fam):
    ob = run.ob("has-parent-generics-conjunction", "E2", "Class::has_parent(&StringName), generic instantiations of the same "
                "class: one (self generic member, other generic) pair from an arbitrary loop state turns the accumulator "
                "into accumulator AND `that member has the other generic as parent` — every generic argument counts",
                ["Class::has_parent(&StringName) (generics loops)"])
    cands = [f for f in mir.find(file=CLSS_RS, impl="impl HasParent<&StringName> for Class", name="has_parent")]
    if len(cands) != 1:
        raise Unsupported(f"has_parent lookup matched {len(cands)}")
    fn = cands[0]
    ex = Exec(mir, max_paths=20000, models=[(r"^<StringName as PartialEq>::(eq|ne)$", m_str_eq)])
    st = State()
    sn = mk_struct(STRING_NAME_RS, "StringName", {"name": opq("self.name.name", "String"), "generics": opq("self.generics", "Vec<Name>")})
    on = mk_struct(STRING_NAME_RS, "StringName", {"name": opq("other.name", "String"), "generics": opq("other.generics", "Vec<Name>")})
    cls, _cv = e2.sym_struct(CLSS_RS, "Class", "self", {"name": sn})
    ctx = Ref(ex.new_cell(st, opq("ctx", "Context")))
    pos = opq("pos", "Position")
    ends = e2.run_kernel(run, ex, fn, [Ref(ex.new_cell(st, cls)), Ref(ex.new_cell(st, on)), ctx, pos], st)
    dbg = fn.debug.get("all_generic_super")
    if not dbg or not re.fullmatch(r"_\d+", dbg):
        raise Unsupported("accumulator local all_generic_super not found")
    n_acc = int(dbg[1:])
    claims, n_body = [], 0
    null_claims = []
    for p in ends:
        if p.kind != "loop_back":
            continue
        s = p.state
        hps = calls(p, "Class.HasParent::has_parent")
        if not hps:
            continue                      # the outer loop's back edge: no member processed on this path
        n_body += 1
        fr0 = s.frames[0]
        cell = fr0.locals.get(n_acc)
        acc1 = s.cells[cell]
        m_ = re.search(r"h\d+_%d_\d+" % n_acc, str(acc1) + " ".join(str(x) for x in p.cond))
        acc0 = z3.Bool(m_.group(0)) if m_ else None
        hv = ex.project(s, ex.project(s, hps[-1]["ret"], ("v", "Ok")), ("f", 0), "bool")
        if acc0 is None or not z3.is_bool(acc1):
            claims.append(z3.Not(conj(p.cond)))
            continue
        # the member of self's generic argument that is looked at in this iteration, and whether the other argument admits None
        nx = calls(p, "Iterator::next")
        member = ex.project(s, ex.project(s, nx[-1]["ret"], ("v", "Some")), ("f", 0), "&TrueName") if nx else None
        tnf = e2.rust_struct("src/check/name/true_name/mod.rs", "TrueName")
        s_null = ex.project(s, member, ("f", tnf.index("is_nullable")), "bool") if member is not None else None
        # "the other argument admits None": a boolean the code computes from the other argument (Name::is_nullable, or any(..) over its members)
        o_null = [e_["ret"] for e_ in p.events if (e_["name"].split("::")[-1] == "is_nullable" or e_["name"] == "Iterator::any") and z3.is_bool(e_["ret"])]
        null_ok = z3.BoolVal(True)
        if s_null is not None and z3.is_bool(s_null):
            null_ok = z3.Or(z3.Not(s_null), *o_null)
        claims.append(z3.Implies(conj(p.cond), z3.And(z3.Implies(acc1, z3.And(acc0, hv)), z3.Implies(z3.And(acc0, hv, null_ok), acc1))))
        null_claims.append(z3.Implies(conj(p.cond), z3.Implies(acc1, null_ok)) if s_null is not None and z3.is_bool(s_null) else z3.Not(conj(p.cond)))
    if not n_body:
        raise Unsupported("generics loop body not reached")
    e2.prove_each(run, ob, ex, [], claims, {}, fam.as_replay("generics:", only=["tuple-", "generic-"]))
    ob2 = run.ob("generic-arguments-keep-nullability", "E2", "Class::has_parent(&StringName), the same loop: a NULLABLE member of self's generic argument only counts as a "
                 "subtype when the other generic argument admits None - List[Int?] is not a List[Int] (a variable of type Int? inside a list literal must not "
                 "initialise a List[Int])", ["Class::has_parent(&StringName) (generics loops)"])
    gf = e2.Family(rp)
    gf.add("list-of-nullable-variable-into-list", "def y: Int? := None\ndef l: List[Int] := [y]", "reject")
    gf.add("list-with-nullable-variable-into-list", "def y: Int? := None\ndef l: List[Int] := [1, y]", "reject")
    gf.add("set-with-nullable-variable-into-set", "def y: Int? := None\ndef l: Set[Int] := {1, y}", "reject")
    gf.add("tuple-with-nullable-variable-into-tuple", "def y: Int? := None\ndef t: (Int, Int) := (1, y)", "reject")
    gf.add("inferred-list-element-into-int", "def y: Int? := None\ndef l := [1, y]\ndef z: Int := l[0]", "reject")
    gf.add("list-of-int-into-list", "def y: Int := 2\ndef l: List[Int] := [1, y]", "accept")
    gf.add("tuple-of-int-into-tuple", "def y: Int := 2\ndef t: (Int, Int) := (1, y)", "accept")
    gf.add("list-literal-none-into-list", "def l: List[Int] := [1, None]", "reject")
    gf.add("mixed-list-element-into-nullable", "def y: Int? := None\ndef l := [1, y]\ndef z: Int? := l[0]", "accept")
    gf.add("mixed-list-copied", "def y: Int? := None\ndef l := [y, 1]\ndef m := l", "accept")
    e2.prove_each(run, ob2, ex, [], null_claims, {}, gf.as_replay("generic-nullability:"))
    if ob2.status == "discharged":
        k_, bad = gf.run()
        run.validated += k_
        # a union with mixed nullability is compared member by member over hash sets: the verdict must not depend on the iteration order
        from props import C12
        for role_, src_, _e, _a in gf.items:
            if role_.startswith("mixed-"):
                outs = [C12.fresh((src_, False))[0] for _ in range(12)]
                run.validated += len(outs)
                if len(set(outs)) > 1:
                    bad.append({"role": role_, "src": src_, "expected": "one verdict", "got": {o: outs.count(o) for o in set(outs)}, "output": ""})
        if bad:
            ob2.status = "pending"
            ob2.inconclusive(f"family disagrees although the kernel is as specified: {bad[:2]}")


def ob_name_superset(run, mir, rp, fam):
    ob = run.ob("union-memberwise", "E2", "Name::is_superset_of, one member of `other` from an arbitrary loop state over "
                "<= 3 members of self: a non-interchangeable other is rejected as soon as one of its members is covered by "
                "no member of self; the accumulator becomes acc ∨ any(answers); after the loop the answer is true "
                "(non-interchangeable) or the accumulator", ["Name::is_superset_of", "::{closure#0..2}"])
    fn = e2.find1(mir, file=NAME_RS, impl="impl IsSuperSet<Name> for Name", name="is_superset_of")
    K = 3
    pres = [z3.Bool(f"self.member{i}.present") for i in range(K)]
    members = [opq(f"self.member{i}", "TrueName") for i in range(K)]
    ex = Exec(mir, max_paths=20000)
    st = State()
    inter = z3.Bool("other.is_interchangeable")
    self_n = mk_struct(NAME_RS, "Name", {"names": SymColl([(pres[i], members[i]) for i in range(K)]), "is_interchangeable": z3.Bool("self.is_interchangeable")})
    other_n = mk_struct(NAME_RS, "Name", {"names": opq("other.names", "HashSet<TrueName>"), "is_interchangeable": inter})
    ctx = Ref(ex.new_cell(st, opq("ctx", "Context")))
    pos = opq("pos", "Position")
    ends = e2.run_kernel(run, ex, fn, [Ref(ex.new_cell(st, self_n)), Ref(ex.new_cell(st, other_n)), ctx, pos], st)
    dbg = fn.debug.get("self_is_super_of")
    if not dbg or not re.fullmatch(r"_\d+", dbg):
        raise Unsupported("accumulator local not found")
    acc_pat = re.compile(r"^h\d+_%s_\d+$" % dbg[1:])
    claims, n_body = [], 0
    for p in ends:
        c = conj(p.cond)
        s = p.state
        kind = result_kind(p)
        nx = calls(p, "Iterator::next")
        sups = calls(p, "TrueName.IsSuperSet::is_superset_of")
        if not nx:
            # the early exit before the loop (other empty): nothing to check here
            continue
        item = nx[-1]["ret"]
        d_opt = ex.discr(s, item, "Option<&TrueName>")
        member = ex.project(s, ex.project(s, item, ("v", "Some")), ("f", 0), "&TrueName")
        # answers of the members of self for this member of other
        ans_ok, ans = [], []
        for i in range(K):
            r = ex.app("TrueName.IsSuperSet::is_superset_of", [members[i], member, ctx, pos], "Result<bool, Vec<TypeErr>>", s)
            d = ex.discr(s, r, "Result")
            v = ex.project(s, ex.project(s, r, ("v", "Ok")), ("f", 0), "bool")
            ans_ok.append(z3.Implies(pres[i], d == 0))
            ans.append(z3.And(pres[i], v))
        any_ans = z3.Or(*ans)
        # accumulator at the loop header (havocked) on this path
        acc0 = None
        for t in [str(x) for x in p.cond] + [str(p.ret)]:
            m_ = re.search(r"h\d+_%s_\d+" % dbg[1:], t)
            if m_:
                acc0 = z3.Bool(m_.group(0))
        if p.kind == "loop_back":
            n_body += 1
            fr0 = s.frames[0]
            cell = fr0.locals.get(int(dbg[1:]))
            acc1 = s.cells[cell]
            if acc0 is None:
                # read the header value from the frame snapshot: the update must be acc0 ∨ any
                m_ = re.search(r"h\d+_%s_\d+" % dbg[1:], str(acc1))
                acc0 = z3.Bool(m_.group(0)) if m_ else z3.BoolVal(False)
            claims.append(z3.Implies(c, z3.And(d_opt == 1, conj(ans_ok), z3.Or(inter, any_ans), acc1 == z3.Or(acc0, any_ans))))
        elif kind == "Ok":
            okv = p.ret.fields[0]
            # either the loop is over, or this member was not covered
            over = d_opt == 0
            if acc0 is None:
                acc0 = z3.Bool("acc_unconstrained")
            claims.append(z3.Implies(z3.And(c, over), okv == z3.If(inter, acc0, z3.BoolVal(True))))
            claims.append(z3.Implies(z3.And(c, z3.Not(over)), z3.And(conj(ans_ok), z3.Not(inter), z3.Not(any_ans), z3.Not(okv))))
        elif kind == "Err":
            claims.append(z3.Implies(c, z3.And(d_opt == 1, z3.Not(conj(ans_ok)))))
        else:
            claims.append(z3.Not(c))
    if not n_body:
        raise Unsupported("loop body not reached")
    names = {"other.is_interchangeable": inter}
    names.update({f"self.member{i}.present": pres[i] for i in range(K)})
    e2.prove(run, ob, ex, [], conj(claims), names, fam.as_replay("union-memberwise:", only=["member-", "other-member", "non-member", "union-"]))


def ob_string_name_direction(run, mir, rp, fam):
    ob = run.ob("string-name-superset-direction", "E2", "StringName::is_superset_of(self, other): the class looked up is OTHER's and it is asked "
                "whether SELF is among its ancestors (a lookup error propagates) - not the other way round; TrueName::is_superset_of hands "
                "its variants over in the same order", ["StringName::is_superset_of", "TrueName::is_superset_of"])
    fn = e2.find1(mir, file=STRING_NAME_RS, impl="IsSuperSet<StringName> for StringName", name="is_superset_of")
    ex = Exec(mir, max_paths=2000)
    st = State()
    selfr, otherr, ctx = (Ref(ex.new_cell(st, opq(n, t))) for n, t in (("self", "StringName"), ("other", "StringName"), ("ctx", "Context")))
    pos = opq("pos", "Position")
    ends = e2.run_kernel(run, ex, fn, [selfr, otherr, ctx, pos], st)
    claims = []
    for p in ends:
        if p.kind != "return":
            raise Unsupported(f"unexpected path end {p}")
        s = p.state
        cls = [ev for ev in p.events if ev["name"].endswith("::class")]
        hp = [ev for ev in p.events if ev["name"].endswith("::has_parent")]
        spec = [z3.BoolVal(len(cls) == 1)]
        if len(cls) == 1:
            spec.append(cls[0]["argvals"][1] == ex.to_val(s, otherr))
            d = ex.discr(s, cls[0]["ret"], "Result")
            spec.append(z3.Implies(d == 1, z3.BoolVal(result_kind(p) == "Err" and not hp)))
            if hp:
                okc = ex.project(s, ex.project(s, cls[0]["ret"], ("v", "Ok")), ("f", 0), "Class")
                spec.append(z3.And(d == 0, z3.BoolVal(len(hp) == 1), hp[0]["argvals"][0] == ex.to_val(s, okc), hp[0]["argvals"][1] == ex.to_val(s, selfr),
                                   ex.to_val(s, p.ret) == ex.to_val(s, hp[0]["ret"])))
            else:
                spec.append(d == 1)
        claims.append(z3.Implies(conj(p.cond), conj(spec)))
    # TrueName -> StringName hand-over
    fn2 = e2.find1(mir, file=TRUE_NAME_RS, impl="IsSuperSet<TrueName> for TrueName", name="is_superset_of")
    ex2 = Exec(mir, max_paths=5000)
    st2 = State()
    tn = e2.rust_struct(TRUE_NAME_RS, "TrueName")
    mk = lambda tag: mk_struct(TRUE_NAME_RS, "TrueName", {f: (z3.Bool(f"{tag}.{f}") if f.startswith("is_") else opq(f"{tag}.{f}", "StringName")) for f in tn})
    a, b = mk("self"), mk("other")
    ar, br, ctx2 = Ref(ex2.new_cell(st2, a)), Ref(ex2.new_cell(st2, b)), Ref(ex2.new_cell(st2, opq("ctx", "Context")))
    ends2 = e2.run_kernel(run, ex2, fn2, [ar, br, ctx2, opq("pos", "Position")], st2)
    iv = tn.index("variant")
    claims2 = []
    for p in ends2:
        for ev in p.events:
            if ev["name"].endswith("is_superset_of"):
                claims2.append(z3.Implies(conj(p.cond), z3.And(ev["argvals"][0] == ex2.to_val(p.state, a.fields[iv]),
                                                               ev["argvals"][1] == ex2.to_val(p.state, b.fields[iv]))))
    if not claims2:
        raise Unsupported("TrueName::is_superset_of never compares variants")
    e2.prove(run, ob, ex, [], conj(claims), {}, fam.as_replay("superset-direction:", only=["child-to-parent", "parent-to-child", "int-to-float", "float-to-int"]))
    if ob.status == "discharged":
        ob.status = "pending"
        e2.prove(run, ob, ex2, [], conj(claims2), {}, fam.as_replay("superset-direction:", only=["child-to-parent", "parent-to-child", "int-to-float", "float-to-int"]))


def ob_ord(run, mir, rp, fam):
    ob = run.ob("true-name-total-order", "E2", "Ord for TrueName: Equal exactly for equal names, antisymmetric, and "
                "decided by (variant, nullable, mutable) lexicographically — the order that makes union rendering independent "
                "of set iteration order", ["<TrueName as Ord>::cmp"])
    fn = e2.find1(mir, file=TRUE_NAME_RS, impl="impl Ord for TrueName", name="cmp")

    def run_cmp(ex, st, a, b):
        ends = e2.run_kernel(run, ex, fn, [a, b], st)
        d = z3.IntVal(99)
        for p in ends:
            if p.kind != "return":
                raise Unsupported(f"cmp path {p}")
            d = z3.If(conj(p.cond), ex.discr(p.state, p.ret, "Ordering"), d)
        return d
    ex = Exec(mir, max_paths=2000, models=[(r"^<StringName as PartialEq>::(eq|ne)$", m_str_eq)])
    st = State()
    a, an, am, _x, avar = C06.true_name_input(ex, st, "a")
    b, bn, bm, _y, bvar = C06.true_name_input(ex, st, "b")
    d_ab = run_cmp(ex, st, a, b)
    d_ba = run_cmp(ex, st, b, a)
    d_aa = run_cmp(ex, st, a, a)
    # the variant comparison is an uninterpreted total order on StringName: antisymmetric, Equal iff equal
    vab = ex.discr(st, ex.app("StringName.Ord::cmp", [avar, bvar], "Ordering", st), "Ordering")
    vba = ex.discr(st, ex.app("StringName.Ord::cmp", [bvar, avar], "Ordering", st), "Ordering")
    veq = ex.to_val(st, avar) == ex.to_val(st, bvar)
    hyp = [vab == -vba, (vab == 0) == veq]
    equal = z3.And(veq, an == bn, am == bm)
    claim = z3.And(d_aa == 0, (d_ab == 0) == equal, d_ab == -d_ba,
                   z3.Implies(z3.Not(veq), d_ab == vab),
                   z3.Implies(z3.And(veq, an != bn), d_ab == z3.If(z3.And(z3.Not(an), bn), -1, 1)))
    e2.prove(run, ob, ex, hyp, claim, {"a.is_nullable": an, "b.is_nullable": bn, "a.is_mutable": am, "b.is_mutable": bm,
                                        "variants_equal": veq}, fam.as_replay("ord:", only=["union-to-same"]))


def run(run):
    mir = e2.load_mir(run)
    rp = common.Replay()
    fam = family(rp)
    run.assume("StringName equality is structural; the derived Ord on StringName is an antisymmetric order that is Equal "
               "exactly for equal names (axioms on the uninterpreted comparison)",
               "<= 2 declared parents, <= 3 members of a union (bounded symbolic sets); generics empty in has_parent",
               "outside: transitivity, inheritance chains deeper than one inductive step, generics, "
               "commutativity/associativity/idempotence of union (HashSet operations)")
    run.trusted += ["rustc nightly MIR dump", "mirsym MIR semantics", "z3"]
    run.bounds = {"parents": 2, "union_members": 3}
    for f in (ob_has_parent, ob_generics, ob_has_parent_name, ob_name_superset, ob_string_name_direction, ob_ord):
        try:
            f(run, mir, rp, fam)
        except Unsupported as e:
            run.ob(f.__name__[3:] + "-encoding", "E2", "kernel is encodable").inconclusive(f"unsupported construct: {e}")
    try:
        C06.ob_true_name_rule(run, mir, rp, fam if False else C06.family(rp))
    except Unsupported as e:
        run.ob("true-name-rule-encoding", "E2", "kernel is encodable").inconclusive(f"unsupported construct: {e}")
    try:
        C06.ob_union(run, mir, rp, C06.family(rp))
    except Unsupported as e:
        run.ob("union-encoding", "E2", "kernel is encodable").inconclusive(f"unsupported construct: {e}")
    if run.clean():
        e2.validate_family(run, fam, "assignability")
    rp.close()
