//! Native replay server: runs requests against the *real* mamba library built from /repo's
//! current working tree (with `--cfg mamba_verif` so that the lexer hooks are visible).
//!
//! Protocol: one request per line on stdin, fields separated by a single space, payloads
//! hex-encoded UTF-8. One response line per request: `OK <hex>` | `ERR <hex>` | `PANIC <hex>`.
//!
//!   transpile <0|1> <hexsrc>        -> OK python | ERR diagnostics (joined by \x1e)
//!   tokens <hexsrc>                 -> OK lines `Debug(token)\tdisplay-hex\tsl\tsp\tel\tep`
//!   step <hexc0> <hexrest> <cur> <line_indent> <ttl:0|1> <line> <pos> <nnl>
//!                                   -> OK `consumed\tpos_line\tpos_pos\tcur\tlineind\tttl\tnnl` + token lines
//!   render <sl> <sp> <el> <ep> <offset-cause:0|1> <cl> <cp> <hexsrc>
//!                                   -> OK rendered TypeErr text
//!   lexerr <line> <pos> <hexsrc>    -> OK rendered LexErr text
//!   width <sl> <sp> <el> <ep>       -> OK decimal
//!   core <hex sexpr>                -> OK text printed by the real Display for Core
//!   asop <hexid>                    -> OK Debug(token)
//!   c2p <hexid>                     -> OK concrete_to_python(id)
//!   lexnew <sl> <sp> <kind> <hexstr> -> OK `el\tep` for Lex::new(start, Str/DocStr/Id(str))
use std::io::{BufRead, Write};
use std::panic;
use std::path::PathBuf;

use mamba::check::result::TypeErr;
use mamba::common::position::{CaretPos, Position};
use mamba::common::result::{WithCause, WithSource};
use mamba::generate::ast::node::{Core, CoreOp};
use mamba::parse::verif_hooks as lx;
use mamba::{mamba_to_python, PipelineArguments};

fn hex(s: &str) -> String {
    s.as_bytes().iter().map(|b| format!("{b:02x}")).collect()
}

fn unhex(s: &str) -> String {
    let s = if s == "-" { "" } else { s };
    let bytes: Vec<u8> = (0..s.len() / 2)
        .map(|i| u8::from_str_radix(&s[2 * i..2 * i + 2], 16).unwrap())
        .collect();
    String::from_utf8(bytes).unwrap()
}

fn lex_line(l: &lx::Lex) -> String {
    format!(
        "{:?}\t{}\t{}\t{}\t{}\t{}",
        l.token,
        hex(&format!("{}", l.token)),
        l.pos.start.line,
        l.pos.start.pos,
        l.pos.end.line,
        l.pos.end.pos
    )
    .replace('\n', "\\n")
}

#[derive(Clone)]
enum Sx {
    One(Core),
    Seq(Vec<Core>),
    Nil,
}

// ---- tiny s-expression reader for Core values: (Add (Id a) (Int 1)) ----
fn sx_tokens(s: &str) -> Vec<String> {
    s.replace('(', " ( ")
        .replace(')', " ) ")
        .split_whitespace()
        .map(String::from)
        .collect()
}

fn sx_core(t: &[String], i: &mut usize) -> Result<Core, String> {
    if t.get(*i).map(String::as_str) != Some("(") {
        return Err(format!("expected ( at {}", *i));
    }
    *i += 1;
    let head = t.get(*i).ok_or("eof")?.clone();
    *i += 1;
    let mut kids: Vec<Core> = vec![];
    let mut atoms: Vec<String> = vec![];
    // statement variants: positional arguments that are lists `(Seq ..)` or absent options `(Nil)`
    let mut pos: Vec<Sx> = vec![];
    while t.get(*i).map(String::as_str) != Some(")") {
        if t.get(*i).map(String::as_str) == Some("(") {
            let h = t.get(*i + 1).map(String::as_str);
            if h == Some("Seq") {
                *i += 2;
                let mut items = vec![];
                while t.get(*i).map(String::as_str) != Some(")") {
                    items.push(sx_core(t, i)?);
                }
                *i += 1;
                pos.push(Sx::Seq(items));
            } else if h == Some("Nil") {
                *i += 3;
                pos.push(Sx::Nil);
            } else {
                let c = sx_core(t, i)?;
                pos.push(Sx::One(c.clone()));
                kids.push(c);
            }
        } else {
            atoms.push(t.get(*i).ok_or("eof")?.clone());
            *i += 1;
        }
    }
    *i += 1;
    let b = |k: &Vec<Core>, n: usize| -> Result<Box<Core>, String> {
        k.get(n).cloned().map(Box::from).ok_or(format!("{head}: missing child {n}"))
    };
    let a = |n: usize| -> Result<String, String> {
        atoms.get(n).cloned().ok_or(format!("{head}: missing atom {n}"))
    };
    let one = |n: usize| -> Result<Box<Core>, String> {
        match pos.get(n) {
            Some(Sx::One(c)) => Ok(Box::from(c.clone())),
            _ => Err(format!("{head}: argument {n} is not a node")),
        }
    };
    let opt = |n: usize| -> Result<Option<Box<Core>>, String> {
        match pos.get(n) {
            Some(Sx::One(c)) => Ok(Some(Box::from(c.clone()))),
            Some(Sx::Nil) => Ok(None),
            _ => Err(format!("{head}: argument {n} is not an option")),
        }
    };
    let seq = |n: usize| -> Result<Vec<Core>, String> {
        match pos.get(n) {
            Some(Sx::Seq(v)) => Ok(v.clone()),
            _ => Err(format!("{head}: argument {n} is not a list")),
        }
    };
    macro_rules! bin {
        ($v:ident) => {
            Core::$v { left: b(&kids, 0)?, right: b(&kids, 1)? }
        };
    }
    macro_rules! un {
        ($v:ident) => {
            Core::$v { expr: b(&kids, 0)? }
        };
    }
    Ok(match head.as_str() {
        "Id" => Core::Id { lit: a(0)? },
        "Int" => Core::Int { int: a(0)? },
        "Float" => Core::Float { float: a(0)? },
        "Str" => Core::Str { string: a(0)? },
        "ENum" => Core::ENum { num: a(0)?, exp: a(1)? },
        "Bool" => Core::Bool { boolean: a(0)? == "true" },
        "None" => Core::None,
        "UnderScore" => Core::UnderScore,
        "Ge" => bin!(Ge),
        "Geq" => bin!(Geq),
        "Le" => bin!(Le),
        "Leq" => bin!(Leq),
        "Is" => bin!(Is),
        "IsN" => bin!(IsN),
        "Eq" => bin!(Eq),
        "Neq" => bin!(Neq),
        "IsA" => bin!(IsA),
        "And" => bin!(And),
        "Or" => bin!(Or),
        "Add" => bin!(Add),
        "Sub" => bin!(Sub),
        "Mul" => bin!(Mul),
        "Mod" => bin!(Mod),
        "Pow" => bin!(Pow),
        "Div" => bin!(Div),
        "FDiv" => bin!(FDiv),
        "BAnd" => bin!(BAnd),
        "BOr" => bin!(BOr),
        "BXOr" => bin!(BXOr),
        "BLShift" => bin!(BLShift),
        "BRShift" => bin!(BRShift),
        "In" => bin!(In),
        "Not" => un!(Not),
        "AddU" => un!(AddU),
        "SubU" => un!(SubU),
        "Sqrt" => un!(Sqrt),
        "BOneCmpl" => un!(BOneCmpl),
        "Return" => un!(Return),
        "Ternary" => Core::Ternary { cond: b(&kids, 0)?, then: b(&kids, 1)?, el: b(&kids, 2)? },
        "AnonFun" => Core::AnonFun { body: b(&kids, 0)?, args: kids[1..].to_vec() },
        "FunctionCall" => Core::FunctionCall { function: b(&kids, 0)?, args: kids[1..].to_vec() },
        "PropertyCall" => Core::PropertyCall { object: b(&kids, 0)?, property: b(&kids, 1)? },
        "Index" => Core::Index { item: b(&kids, 0)?, range: b(&kids, 1)? },
        "Tuple" => Core::Tuple { elements: kids.clone() },
        "TupleLiteral" => Core::TupleLiteral { elements: kids.clone() },
        "List" => Core::List { elements: kids.clone() },
        "Set" => Core::Set { elements: kids.clone() },
        "KeyValue" => Core::KeyValue { key: b(&kids, 0)?, value: b(&kids, 1)? },
        "Comprehension" => Core::Comprehension { expr: b(&kids, 0)?, col: b(&kids, 1)?, conds: kids[2..].to_vec() },
        // ---- statements (positional arguments; `(Seq ..)` lists, `(Nil)` absent options, leading atoms are strings)
        "Pass" => Core::Pass,
        "Break" => Core::Break,
        "Continue" => Core::Continue,
        "Empty" => Core::Empty,
        "DocStr" => Core::DocStr { string: a(0)? },
        "FStr" => Core::FStr { string: a(0)? },
        "Type" => Core::Type { lit: a(0)?, generics: seq(0)? },
        "Block" => Core::Block { statements: seq(0)? },
        "If" => Core::If { cond: one(0)?, then: one(1)? },
        "IfElse" => Core::IfElse { cond: one(0)?, then: one(1)?, el: one(2)? },
        "While" => Core::While { cond: one(0)?, body: one(1)? },
        "For" => Core::For { expr: one(0)?, col: one(1)?, body: one(2)? },
        "Raise" => Core::Raise { error: one(0)? },
        "With" => Core::With { resource: one(0)?, expr: one(1)? },
        "WithAs" => Core::WithAs { resource: one(0)?, alias: one(1)?, expr: one(2)? },
        "Match" => Core::Match { expr: one(0)?, cases: seq(1)? },
        "Case" => Core::Case { expr: one(0)?, body: one(1)? },
        "ExceptId" => Core::ExceptId { id: one(0)?, class: one(1)?, body: one(2)? },
        "Except" => Core::Except { class: one(0)?, body: one(1)? },
        "TryExcept" => Core::TryExcept { setup: opt(0)?, attempt: one(1)?, except: seq(2)? },
        "VarDef" => Core::VarDef { var: one(0)?, ty: opt(1)?, expr: opt(2)? },
        "FunArg" => Core::FunArg { vararg: a(0)? == "true", var: one(0)?, ty: opt(1)?, default: opt(2)? },
        "FunDef" => Core::FunDef { id: a(0)?, dec: atoms[1..].to_vec(), arg: seq(0)?, ty: opt(1)?, body: one(2)? },
        "ClassDef" => Core::ClassDef { name: one(0)?, parent_names: seq(1)?, body: one(2)? },
        "Import" => Core::Import { from: opt(0)?, import: seq(1)?, alias: seq(2)? },
        "Assign" => Core::Assign {
            left: one(0)?,
            right: one(1)?,
            op: match a(0)?.as_str() {
                "=" => CoreOp::Assign,
                "+=" => CoreOp::AddAssign,
                "-=" => CoreOp::SubAssign,
                "*=" => CoreOp::MulAssign,
                "/=" => CoreOp::DivAssign,
                "**=" => CoreOp::PowAssign,
                "<<=" => CoreOp::BLShiftAssign,
                ">>=" => CoreOp::BRShiftAssign,
                o => return Err(format!("unknown assignment operator {o}")),
            },
        },
        other => return Err(format!("unknown Core variant {other}")),
    })
}

fn handle(line: &str) -> Result<String, String> {
    let f: Vec<&str> = line.split(' ').collect();
    let n = |i: usize| f[i].parse::<usize>().unwrap();
    match f[0] {
        "transpile" => {
            let annotate = f[1] == "1";
            let src = unhex(f[2]);
            let args = PipelineArguments { annotate };
            match mamba_to_python(&[(src, None)], &PathBuf::from(""), &args) {
                Ok(v) => Ok(v.join("\u{1e}")),
                Err(e) => Err(e.join("\u{1e}")),
            }
        }
        "project" => {
            // transpile_dir(dir, Some(src), Some(target)) on a directory prepared by the caller
            let dir = unhex(f[1]);
            let src = unhex(f[2]);
            let target = unhex(f[3]);
            let args = mamba::Arguments { annotate: f[4] == "1" };
            match mamba::transpile_dir(std::path::Path::new(&dir), Some(src.as_str()), Some(target.as_str()), &args) {
                Ok(p) => Ok(p.display().to_string()),
                Err(e) => Err(e.join("\u{1e}")),
            }
        }
        "tokens" => {
            let src = unhex(f[1]);
            match lx::tokenize(&src) {
                Ok(ts) => Ok(ts.iter().map(lex_line).collect::<Vec<_>>().join("\n")),
                Err(e) => Err(format!("{}:{} {}", e.pos.line, e.pos.pos, e.msg)),
            }
        }
        "step" => {
            let c0 = unhex(f[1]).chars().next().unwrap();
            let rest = unhex(f[2]);
            let cur = f[3].parse::<i32>().unwrap();
            let li = f[4].parse::<i32>().unwrap();
            let ttl = f[5] == "1";
            let pos = CaretPos::new(n(6), n(7));
            let nnl = n(8);
            let nls = vec![lx::Lex::new(pos, lx::Token::NL); nnl];
            let mut st = lx::VerifState::verif_new(nls, cur, li, ttl, pos);
            let total = rest.chars().count();
            let mut it = rest.chars().peekable();
            match lx::verif_into_tokens(c0, &mut it, &mut st) {
                Ok(ts) => {
                    let left = it.count();
                    let (c, l, t, k) = st.verif_view();
                    let mut out = format!(
                        "{}\t{}\t{}\t{}\t{}\t{}\t{}",
                        1 + total - left,
                        st.pos.line,
                        st.pos.pos,
                        c,
                        l,
                        u8::from(t),
                        k
                    );
                    for l in &ts {
                        out.push('\n');
                        out.push_str(&lex_line(l));
                    }
                    Ok(out)
                }
                Err(e) => Err(format!("{}:{} {}", e.pos.line, e.pos.pos, e.msg)),
            }
        }
        "render" => {
            let pos = Position::new(CaretPos::new(n(1), n(2)), CaretPos::new(n(3), n(4)));
            let src = unhex(f[8]);
            let mut err = TypeErr::new(pos, "msg");
            if f[5] == "1" {
                let cpos = Position::new(CaretPos::new(n(6), n(7)), CaretPos::new(n(6), n(7) + 1));
                err = err.with_cause("cause", cpos);
            }
            let err = err.with_source(&Some(src), &Some(PathBuf::from("f.mamba")));
            Ok(format!("{err}"))
        }
        "lexerr" => {
            let src = unhex(f[3]);
            let e = lx::LexErr::new(CaretPos::new(n(1), n(2)), None, "msg")
                .into_with_source(&Some(src), &None);
            Ok(format!("{e}"))
        }
        "width" => {
            let pos = Position::new(CaretPos::new(n(1), n(2)), CaretPos::new(n(3), n(4)));
            Ok(format!("{}", pos.get_width()))
        }
        "union" => {
            let a = Position::new(CaretPos::new(n(1), n(2)), CaretPos::new(n(3), n(4)));
            let b = Position::new(CaretPos::new(n(5), n(6)), CaretPos::new(n(7), n(8)));
            let u = a.union(b);
            Ok(format!("{} {} {} {}", u.start.line, u.start.pos, u.end.line, u.end.pos))
        }
        "caret" => {
            // caret <op> <line> <pos> <arg1> [<arg2>]
            let c = CaretPos::new(n(2), n(3));
            let r = match f[1] {
                "offset_line" => c.offset_line(n(4)),
                "offset_pos" => c.offset_pos(n(4)),
                "newline" => c.newline(),
                "offset" => c.offset(&CaretPos::new(n(4), n(5))),
                _ => return Err(String::from("unknown caret op")),
            };
            Ok(format!("{} {}", r.line, r.pos))
        }
        "core" => {
            // core <hex s-expression> -> the real Display output (one trailing newline stripped)
            let t = sx_tokens(&unhex(f[1]));
            let mut i = 0;
            let c = sx_core(&t, &mut i)?;
            let out = format!("{c}");
            Ok(out.strip_suffix('\n').unwrap_or(&out).to_string())
        }
        "asop" => Ok(format!("{:?}", lx::verif_as_op_or_id(unhex(f[1])))),
        "c2p" => Ok(mamba::check::context::clss::concrete_to_python(&unhex(f[1]))),
        "lexnew" => {
            let start = CaretPos::new(n(1), n(2));
            let s = unhex(f[4]);
            let tok = match f[3] {
                "str" => lx::Token::Str(s, vec![]),
                "doc" => lx::Token::DocStr(s),
                "int" => lx::Token::Int(s),
                "real" => lx::Token::Real(s),
                "comment" => lx::Token::Comment(s),
                _ => lx::Token::Id(s),
            };
            let l = lx::Lex::new(start, tok);
            Ok(format!("{}\t{}", l.pos.end.line, l.pos.end.pos))
        }
        other => Err(format!("unknown command {other}")),
    }
}

fn main() {
    panic::set_hook(Box::new(|_| {}));
    let stdin = std::io::stdin();
    let stdout = std::io::stdout();
    for line in stdin.lock().lines() {
        let line = line.unwrap();
        let line = line.trim_end().to_string();
        if line.is_empty() {
            continue;
        }
        let res = panic::catch_unwind(|| handle(&line));
        let out = match res {
            Ok(Ok(s)) => format!("OK {}", hex(&s)),
            Ok(Err(s)) => format!("ERR {}", hex(&s)),
            Err(p) => {
                let msg = if let Some(s) = p.downcast_ref::<String>() {
                    s.clone()
                } else if let Some(s) = p.downcast_ref::<&str>() {
                    (*s).to_string()
                } else {
                    String::from("panic")
                };
                format!("PANIC {}", hex(&msg))
            }
        };
        let mut o = stdout.lock();
        writeln!(o, "{out}").unwrap();
        o.flush().unwrap();
    }
}
